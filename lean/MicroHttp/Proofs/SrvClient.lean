/-
  Proofs.SrvClient — `ClientConnection::{read, write}` keep descriptor and identity and preserve the
  per-connection invariant `ClientOK`.
-/
import MicroHttp.Proofs.SrvBasic
import MicroHttp.Proofs.SrvWrite
import MicroHttp.Props.C03
namespace MicroHttp

/-! ### `tryRead` facts -/

theorem tryRead_streamErr {RL H : Type} (P : Params RL H) (c : Conn RL H) (inp : Recv) (e : Nat)
    (h : (tryRead P c inp).2 = .streamErr e) : (tryRead P c inp).1 = c := by
  revert h
  unfold tryRead
  split
  · intro h; cases h
  · cases inp with
    | err errno => intro _; rfl
    | data chunk fds =>
      simp only
      split
      · intro h; cases h
      · split <;> (intro h; cases h)

theorem tryRead_closed {RL H : Type} (P : Params RL H) (c : Conn RL H) (inp : Recv)
    (h : (tryRead P c inp).2 = .closed) :
    (tryRead P c inp).1.parsed = c.parsed ∧ (tryRead P c inp).1.respQ = c.respQ ∧
    (tryRead P c inp).1.respBuf = c.respBuf ∧ (Inv P c → Inv P (tryRead P c inp).1) := by
  revert h
  unfold tryRead
  split
  · intro h; cases h
  · cases inp with
    | err errno => intro h; cases h
    | data chunk fds =>
      simp only
      split
      · intro _
        refine ⟨rfl, rfl, rfl, ?_⟩
        intro hI
        exact ⟨hI.notReady, hI.winShort, hI.winNoCRLF, hI.hdr, hI.bod, hI.nb, hI.rbuf⟩
      · split <;> (intro h; cases h)

/-! ### identity is kept -/

theorem Client.read_fd (c : Client) (rd : Recv) (t : List Byte) : (c.read rd t).1.fd = c.fd := by
  unfold Client.read
  generalize tryRead P0 c.conn rd = p
  obtain ⟨conn', out⟩ := p
  cases out <;> simp only [] <;> (try split) <;> rfl

theorem Client.read_inst (c : Client) (rd : Recv) (t : List Byte) : (c.read rd t).1.inst = c.inst := by
  unfold Client.read
  generalize tryRead P0 c.conn rd = p
  obtain ⟨conn', out⟩ := p
  cases out <;> simp only [] <;> (try split) <;> rfl

theorem Client.read_interest (c : Client) (rd : Recv) (t : List Byte) :
    (c.read rd t).1.interest = c.interest := by
  unfold Client.read
  generalize tryRead P0 c.conn rd = p
  obtain ⟨conn', out⟩ := p
  cases out <;> simp only [] <;> (try split) <;> rfl

theorem Client.read_inflight (c : Client) (rd : Recv) (t : List Byte) :
    (c.read rd t).1.inflight = c.inflight + (c.read rd t).2.1.length := by
  unfold Client.read
  generalize tryRead P0 c.conn rd = p
  obtain ⟨conn', out⟩ := p
  cases out <;> simp only [] <;> (try split) <;> rfl

theorem Client.read_eq (c : Client) (rd : Recv) (t : List Byte) :
    c.read rd t =
      let conn' := (tryRead P0 c.conn rd).1
      let finish (conn : Conn0) (reqs : List Request) : Client :=
        let c1 := { c with conn := conn, inflight := c.inflight + reqs.length }
        if pendingWrite conn then { c1 with state := .awaitingOut } else c1
      match (tryRead P0 c.conn rd).2 with
      | .closed => ({ c with conn := conn', state := .closed }, [], none)
      | .streamErr _ =>
        let r := (Response.new .http11 .internalServerError).apply (.setBody t)
        (finish (enqueue conn' r) [], [], none)
      | .parseErr e =>
        let r := (Response.new .http11 .badRequest).apply (.setBody (badRequestBody e))
        (finish (enqueue { conn' with parsed := [] } r) [], [], none)
      | .ok => (finish { conn' with parsed := [] } conn'.parsed, conn'.parsed, none)
      | .panic p => ({ c with conn := conn' }, [], some p) := by
  rfl

theorem Client.write_fd (c : Client) (w : SinkStep) : (c.write w).1.fd = c.fd := by
  unfold Client.write
  generalize tryWrite c.conn w = p
  obtain ⟨conn', out, bytes, b⟩ := p
  cases out <;> rfl

theorem Client.write_inst (c : Client) (w : SinkStep) : (c.write w).1.inst = c.inst := by
  unfold Client.write
  generalize tryWrite c.conn w = p
  obtain ⟨conn', out, bytes, b⟩ := p
  cases out <;> rfl

theorem Client.write_inflight (c : Client) (w : SinkStep) : (c.write w).1.inflight = c.inflight := by
  unfold Client.write
  generalize tryWrite c.conn w = p
  obtain ⟨conn', out, bytes, b⟩ := p
  cases out <;> rfl

theorem Client.write_interest (c : Client) (w : SinkStep) : (c.write w).1.interest = c.interest := by
  unfold Client.write
  generalize tryWrite c.conn w = p
  obtain ⟨conn', out, bytes, b⟩ := p
  cases out <;> rfl

theorem Client.write_conn (c : Client) (w : SinkStep) : (c.write w).1.conn = (tryWrite c.conn w).1 := by
  unfold Client.write
  generalize tryWrite c.conn w = p
  obtain ⟨conn', out, bytes, b⟩ := p
  cases out <;> rfl

theorem Client.write_eq (c : Client) (w : SinkStep) :
    c.write w =
      match (tryWrite c.conn w).2.1 with
      | .closed => ({ c with conn := (tryWrite c.conn w).1, state := .closed }, (tryWrite c.conn w).2.2.1)
      | .invalidWrite =>
        ({ c with conn := (tryWrite c.conn w).1, state := if c.state = .closed then .closed else .awaitingIn }, [])
      | .ok => ({ c with conn := (tryWrite c.conn w).1,
                         state := if pendingWrite (tryWrite c.conn w).1 then c.state else .awaitingIn },
                (tryWrite c.conn w).2.2.1) := by
  rfl

/-! ### the per-connection invariant -/

/-- `ClientOK` without the registration clause (which `read` breaks until the server re-arms) -/
structure ClientCore (c : Client) : Prop where
  conn : Inv P0 c.conn
  drained : c.conn.parsed = []
  pending_iff : pendingWrite c.conn = true ↔ c.state = .awaitingOut

theorem ClientOK.core {c : Client} (h : ClientOK c) : ClientCore c := ⟨h.conn, h.drained, h.pending_iff⟩

theorem ClientOK.nopending {c : Client} (h : ClientOK c) (hs : c.state ≠ .awaitingOut) :
    pendingWrite c.conn = false := by
  cases hp : pendingWrite c.conn with
  | false => rfl
  | true => exact absurd (h.pending_iff.mp hp) hs

/-- `Client.read` on a connection that is not waiting for writability: no panic, and the
    invariant (except registration) is kept. -/
theorem ClientCore_read (c : Client) (hc : ClientOK c) (hs : c.state ≠ .awaitingOut)
    (rd : Recv) (t : List Byte) :
    ClientCore (c.read rd t).1 ∧ (c.read rd t).2.2 = none := by
  have hsafe := C03.tryRead_safe P0 C03.P0_wf c.conn hc.conn rd
  have hnp := hc.nopending hs
  -- `finish` yields a good client from any good connection
  have hfin : ∀ (conn : Conn0) (n : Nat), Inv P0 conn → conn.parsed = [] →
      ClientCore (if pendingWrite conn = true
        then { c with conn := conn, inflight := n, state := CState.awaitingOut }
        else { c with conn := conn, inflight := n }) := by
    intro conn n hI hp
    by_cases hpw : pendingWrite conn = true
    · rw [if_pos hpw]; exact ⟨hI, hp, by simp [hpw]⟩
    · rw [if_neg hpw]; exact ⟨hI, hp, by simp [hpw, hs]⟩
  rw [Client.read_eq]
  simp only
  cases hout : (tryRead P0 c.conn rd).2 with
  | closed =>
    obtain ⟨h1, h2, h3, h4⟩ := tryRead_closed P0 c.conn rd hout
    refine ⟨⟨h4 hc.conn, by simp only; rw [h1]; exact hc.drained, ?_⟩, rfl⟩
    simp only [pendingWrite, h2, h3, reduceCtorEq, iff_false]
    simpa [pendingWrite] using hnp
  | streamErr e =>
    have heq := tryRead_streamErr P0 c.conn rd e hout
    refine ⟨?_, rfl⟩
    simp only [heq]
    exact hfin _ _ (enqueue_inv P0 _ hc.conn _) hc.drained
  | parseErr e =>
    refine ⟨?_, rfl⟩
    simp only
    refine hfin _ _ (enqueue_inv P0 _ ?_ _) rfl
    exact Inv_of_parser_eq P0 _ _ hsafe.1 rfl rfl rfl rfl rfl hsafe.1.rbuf
  | ok =>
    refine ⟨?_, rfl⟩
    simp only
    refine hfin _ _ ?_ rfl
    exact Inv_of_parser_eq P0 _ _ hsafe.1 rfl rfl rfl rfl rfl hsafe.1.rbuf
  | panic p => exact absurd hout (hsafe.2 p)

/-- re-arming: `EPOLLOUT` interest as soon as the connection waits for writability -/
def armOut (c : Client) : Client := if c.state = .awaitingOut then { c with interest := .out } else c

/-- back to `EPOLLIN` once the connection waits for input -/
def armIn (c : Client) : Client := if c.state = .awaitingIn then { c with interest := .inn } else c

theorem ClientOK_armOut (c : Client) (h : ClientCore c) : ClientOK (armOut c) := by
  unfold armOut
  split
  · exact ⟨h.conn, h.drained, h.pending_iff, fun _ => rfl⟩
  · rename_i hs; exact ⟨h.conn, h.drained, h.pending_iff, fun h' => absurd h' hs⟩

theorem ClientOK_armIn (c : Client) (h : ClientOK c) : ClientOK (armIn c) := by
  unfold armIn
  split
  · rename_i hs
    exact ⟨h.conn, h.drained, h.pending_iff, fun h' => by simp only at h'; rw [hs] at h'; cases h'⟩
  · exact h

theorem armOut_fd (c : Client) : (armOut c).fd = c.fd := by unfold armOut; split <;> rfl
theorem armOut_inst (c : Client) : (armOut c).inst = c.inst := by unfold armOut; split <;> rfl
theorem armOut_inflight (c : Client) : (armOut c).inflight = c.inflight := by unfold armOut; split <;> rfl
theorem armOut_conn (c : Client) : (armOut c).conn = c.conn := by unfold armOut; split <;> rfl
theorem armOut_state (c : Client) : (armOut c).state = c.state := by unfold armOut; split <;> rfl
theorem armIn_fd (c : Client) : (armIn c).fd = c.fd := by unfold armIn; split <;> rfl
theorem armIn_inst (c : Client) : (armIn c).inst = c.inst := by unfold armIn; split <;> rfl
theorem armIn_inflight (c : Client) : (armIn c).inflight = c.inflight := by unfold armIn; split <;> rfl
theorem armIn_conn (c : Client) : (armIn c).conn = c.conn := by unfold armIn; split <;> rfl
theorem armIn_state (c : Client) : (armIn c).state = c.state := by unfold armIn; split <;> rfl

/-- `Client.write` keeps the per-connection invariant, whatever the write returns. -/
theorem ClientOK_write (c : Client) (hc : ClientOK c) (w : SinkStep) : ClientOK (c.write w).1 := by
  have hI := C03.tryWrite_inv P0 c.conn hc.conn w
  have hpar := tryWrite_parsed c.conn w
  rw [Client.write_eq]
  rcases tryWrite_cases c.conn w with ⟨h1, h2, h3, _⟩ | ⟨h1, h2, _⟩ | ⟨h1, h2, _⟩
  · rw [h1]
    simp only
    have hns : c.state ≠ .awaitingOut := by
      intro hs; rw [hc.pending_iff.mpr hs] at h2; cases h2
    refine ⟨hI, by rw [hpar]; exact hc.drained, ?_, ?_⟩
    · simp only [h3, h2, Bool.false_eq_true, false_iff]
      split <;> simp
    · simp only
      intro h'; split at h' <;> cases h'
  · rw [h1]
    simp only
    refine ⟨hI, by rw [hpar]; exact hc.drained, ?_, ?_⟩
    · simp [h2]
    · simp
  · rw [h1]
    simp only
    have hs : c.state = .awaitingOut := hc.pending_iff.mp h2
    refine ⟨hI, by rw [hpar]; exact hc.drained, ?_, ?_⟩
    · simp only
      cases hp : pendingWrite (tryWrite c.conn w).1 <;> simp [hs]
    · simp only
      intro _
      exact hc.out_interest hs

/-- the flush loop of one connection -/
theorem flushClient_props (ws : List SinkStep) (c : Client) (hc : ClientOK c) :
    ClientOK (flushClient c ws).1 ∧ (flushClient c ws).1.fd = c.fd ∧ (flushClient c ws).1.inst = c.inst ∧
    (flushClient c ws).1.inflight = c.inflight := by
  induction ws generalizing c with
  | nil => exact ⟨hc, rfl, rfl, rfl⟩
  | cons w ws ih =>
    rw [flushClient]
    split
    · obtain ⟨h1, h2, h3, h4⟩ := ih (c.write w).1 (ClientOK_write c hc w)
      simp only
      exact ⟨h1, by rw [h2, Client.write_fd], by rw [h3, Client.write_inst], by rw [h4, Client.write_inflight]⟩
    · exact ⟨hc, rfl, rfl, rfl⟩

end MicroHttp
