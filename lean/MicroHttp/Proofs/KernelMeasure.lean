/-
  Proofs.KernelMeasure — every poll of a well-behaved world whose epoll descriptor signals
  strictly decreases the work measure in the lexicographic order.
-/
import MicroHttp.Proofs.KernelPoll
namespace MicroHttp

theorem sumList_map_zero {α : Type} (l : List α) (f : α → Nat) (h : ∀ x ∈ l, f x = 0) :
    sumList (l.map f) = 0 := by
  induction l with
  | nil => rfl
  | cons x xs ih =>
    simp only [List.map_cons, sumList_cons]
    rw [h x List.mem_cons_self, ih (fun y hy => h y (List.mem_cons_of_mem _ hy))]

theorem measure_fst (w : World) :
    w.measure.1 = sumList (w.backlog.map (fun fd => 1 + (w.sock fd).unread.length)) +
      sumList (w.srv.conns.map (fun c => (w.sock c.fd).unread.length)) := rfl

theorem measure_snd (w : World) :
    w.measure.2.1 = sumList (w.srv.conns.map (fun c => (unsentOf c).length)) := rfl

theorem measure_trd (w : World) : w.measure.2.2 = (w.srv.conns.filter staleOut).length := rfl

theorem findClient_none_of_not_mem (cs : List Client) (fd : Nat) (h : fd ∉ cs.map (·.fd)) :
    findClient cs fd = none := by
  cases hf : findClient cs fd with
  | none => rfl
  | some c =>
    obtain ⟨hc, e⟩ := findClient_some hf
    exact absurd (List.mem_map.mpr ⟨c, hc, e⟩) h

/-- the poll does not touch the queue of a pending connect -/
theorem poll_unread_backlog (w : World) (hw : w.WellBehaved) (fd : Nat) (hfd : fd ∈ w.backlog) :
    (w.poll.1.sock fd).unread.length = (w.sock fd).unread.length := by
  rw [poll_sock_of_none w fd (findClient_none_of_not_mem _ _ (hw.2.2.1 fd hfd).1)]

/-- the poll takes from the queue of a connection what its single `recv` takes -/
theorem poll_unread_conn (w : World) (h : SrvInv w.srv) (x : Client) (hx : x ∈ w.srv.conns) :
    (w.poll.1.sock x.fd).unread.length = (w.sock x.fd).unread.length - takenFrom x (w.sock x.fd) := by
  rw [(poll_sock_of_some w x.fd x (h.find hx)).1, List.length_drop]

theorem newPart_backlog (w : World) (hw : w.WellBehaved) (c : Client) (hc : c ∈ newPart w) :
    c.fd ∈ w.backlog := by
  obtain ⟨_, _, _, rest, hb, _⟩ := newPart_props w hw c hc
  rw [hb]; exact List.mem_cons_self

/-- first component after the poll -/
theorem poll_measure_fst (w : World) (h : SrvInv w.srv) (hw : w.WellBehaved) :
    w.poll.1.measure.1 =
      sumList ((w.backlog.drop 1).map (fun fd => 1 + (w.sock fd).unread.length)) +
      (sumList (w.srv.conns.map (fun x => (w.sock x.fd).unread.length - takenFrom x (w.sock x.fd))) +
       sumList ((newPart w).map (fun c => (w.sock c.fd).unread.length))) := by
  rw [measure_fst, poll_conns w h hw, poll_backlog, List.map_append, sumList_append, List.map_map]
  congr 1
  · apply sumList_map_congr
    intro fd hfd
    rw [poll_unread_backlog w hw fd (List.mem_of_mem_drop hfd)]
  · congr 1
    · apply sumList_map_congr
      intro x hx
      simp only [Function.comp, stepClient_fd]
      exact poll_unread_conn w h x hx
    · apply sumList_map_congr
      intro c hc
      exact poll_unread_backlog w hw c.fd (newPart_backlog w hw c hc)

/-- second component after the poll -/
theorem poll_measure_snd (w : World) (h : SrvInv w.srv) (hw : w.WellBehaved) :
    w.poll.1.measure.2.1 =
      sumList (w.srv.conns.map (fun x => (unsentOf (stepClient x (w.sock x.fd))).length)) := by
  rw [measure_snd, poll_conns w h hw, List.map_append, sumList_append, List.map_map]
  rw [sumList_map_zero (newPart w)]
  · rw [Nat.add_zero]; rfl
  · intro c hc
    rw [(newPart_props w hw c hc).2.2.1]; rfl

/-- third component after the poll -/
theorem poll_measure_trd (w : World) (h : SrvInv w.srv) (hw : w.WellBehaved) :
    w.poll.1.measure.2.2 =
      ((w.srv.conns.map (fun x => stepClient x (w.sock x.fd))).filter staleOut).length := by
  rw [measure_trd, poll_conns w h hw, List.filter_append]
  have : (newPart w).filter staleOut = [] := by
    apply List.filter_eq_nil_iff.mpr
    intro c hc
    have := (newPart_props w hw c hc).2.1
    simp [staleOut, this]
  rw [this, List.append_nil]

/-- a pending connect: the first component decreases -/
theorem poll_fst_lt_of_backlog (w : World) (h : SrvInv w.srv) (hw : w.WellBehaved) (hb : w.backlog ≠ []) :
    w.poll.1.measure.1 < w.measure.1 := by
  rw [poll_measure_fst w h hw, measure_fst]
  have hle := sumList_map_le w.srv.conns
    (fun x => (w.sock x.fd).unread.length - takenFrom x (w.sock x.fd))
    (fun x => (w.sock x.fd).unread.length) (fun x _ => Nat.sub_le _ _)
  unfold newPart
  cases hbl : w.backlog with
  | nil => exact absurd hbl hb
  | cons fd rest =>
    simp only [List.drop_succ_cons, List.drop_zero, List.map_cons, sumList_cons]
    unfold acceptedBy
    split
    · simp only [List.map_nil, sumList_nil]; omega
    · simp only [List.map_cons, List.map_nil, sumList_cons, sumList_nil, newClient]; omega

/-- no pending connect: the first component does not increase … -/
theorem poll_fst_le (w : World) (h : SrvInv w.srv) (hw : w.WellBehaved) (hb : w.backlog = []) :
    w.poll.1.measure.1 = sumList (w.srv.conns.map
      (fun x => (w.sock x.fd).unread.length - takenFrom x (w.sock x.fd))) ∧
    w.measure.1 = sumList (w.srv.conns.map (fun x => (w.sock x.fd).unread.length)) := by
  rw [poll_measure_fst w h hw, measure_fst]
  unfold newPart
  rw [hb]
  simp

/-- the connections the kernel reports because of unread input -/
def InReady (w : World) (x : Client) : Prop := x.interest = .inn ∧ (w.sock x.fd).unread ≠ []

/-- the connections the kernel reports because their unsent output can be written -/
def OutReady (w : World) (x : Client) : Prop :=
  x.interest = .out ∧ x.state = .awaitingOut ∧ 0 < (w.sock x.fd).space

theorem takenFrom_zero_of_not_inReady (w : World) (x : Client) (hn : ¬ InReady w x) :
    takenFrom x (w.sock x.fd) = 0 := by
  cases hi : x.interest with
  | out => exact takenFrom_out x _ hi
  | inn =>
    apply takenFrom_empty
    cases hu : (w.sock x.fd).unread with
    | nil => rfl
    | cons a as => exact absurd ⟨hi, by rw [hu]; simp⟩ hn

theorem step_of_not_inReady (w : World) (hw : w.WellBehaved) (x : Client) (hx : x ∈ w.srv.conns)
    (hn : ¬ InReady w x) : x.interest = .out ∨ stepClient x (w.sock x.fd) = x := by
  cases hi : x.interest with
  | out => left; rfl
  | inn =>
    right
    apply stepClient_not_ready x _ (hw.2.1 x hx).1
    rw [connReady_inn x _ hi, (hw.2.1 x hx).1]
    cases hu : (w.sock x.fd).unread with
    | nil => rfl
    | cons a as => exact absurd ⟨hi, by rw [hu]; simp⟩ hn

theorem poll_progress' (w : World) (h : SrvInv w.srv) (hw : w.WellBehaved) (hr : w.ready = true) :
    lexLt w.poll.1.measure w.measure := by
  unfold lexLt
  by_cases hb : w.backlog = []
  case neg => left; exact poll_fst_lt_of_backlog w h hw hb
  obtain ⟨f1, f2⟩ := poll_fst_le w h hw hb
  by_cases hin : ∃ x ∈ w.srv.conns, InReady w x
  · -- some connection receives at least one byte
    left
    rw [f1, f2]
    apply sumList_map_lt
    · intro x _; exact Nat.sub_le _ _
    · obtain ⟨x, hx, hi, hu⟩ := hin
      refine ⟨x, hx, ?_⟩
      have := takenFrom_pos x (w.sock x.fd) (h.clients x hx) (hw.2.1 x hx).1 hi hu
      have := List.length_pos_iff.mpr hu
      omega
  · right
    have hnin : ∀ x ∈ w.srv.conns, ¬ InReady w x := fun x hx hi => hin ⟨x, hx, hi⟩
    refine ⟨?_, ?_⟩
    · rw [f1, f2]
      apply sumList_map_congr
      intro x hx
      rw [takenFrom_zero_of_not_inReady w x (hnin x hx), Nat.sub_zero]
    · rw [poll_measure_snd w h hw, measure_snd, poll_measure_trd w h hw, measure_trd]
      have hle : ∀ x ∈ w.srv.conns,
          (unsentOf (stepClient x (w.sock x.fd))).length ≤ (unsentOf x).length := by
        intro x hx
        rcases step_of_not_inReady w hw x hx (hnin x hx) with hi | he
        · exact stepClient_unsent_le x _ (h.clients x hx) (hw.2.1 x hx).2 hi
        · rw [he]; exact Nat.le_refl _
      by_cases hout : ∃ x ∈ w.srv.conns, OutReady w x
      · -- some connection sends at least one byte
        left
        apply sumList_map_lt _ _ _ hle
        obtain ⟨x, hx, hi, hs, hsp⟩ := hout
        exact ⟨x, hx, stepClient_unsent_lt x _ (h.clients x hx) hi hs hsp⟩
      · -- every reported connection has a stale OUT registration, which is repaired
        have hthird : ((w.srv.conns.map (fun x => stepClient x (w.sock x.fd))).filter staleOut).length <
            (w.srv.conns.filter staleOut).length := by
          apply filter_map_length_lt
          · intro x hx hst
            exact (stepClient_staleOut x _ (h.clients x hx) (hw.2.1 x hx).2 (hw.2.1 x hx).1 hst).1
          · -- the descriptor signals, so some connection is reported
            have hany : w.srv.conns.any (fun c => connReady c (w.sock c.fd)) = true := by
              unfold World.ready at hr
              rw [hb, hw.1] at hr
              simpa using hr
            obtain ⟨x, hx, hrx⟩ := List.any_eq_true.mp hany
            have hpg := (hw.2.1 x hx).1
            have hcl := (hw.2.1 x hx).2
            refine ⟨x, hx, ?_, ?_⟩
            · cases hi : x.interest with
              | inn =>
                exfalso
                rw [connReady_inn x _ hi, hpg] at hrx
                apply hnin x hx
                refine ⟨hi, ?_⟩
                intro hu; rw [hu] at hrx; simp at hrx
              | out =>
                rw [connReady_out x _ hi, hpg] at hrx
                simp only [Bool.false_or, decide_eq_true_eq] at hrx
                cases hs : x.state with
                | closed => exact absurd hs hcl
                | awaitingOut => exact absurd ⟨x, hx, hi, hs, hrx⟩ hout
                | awaitingIn => simp [staleOut, hi, hs]
            · cases hst : staleOut (stepClient x (w.sock x.fd)) with
              | false => rfl
              | true =>
                have := (stepClient_staleOut x _ (h.clients x hx) hcl hpg hst).2
                rw [hrx] at this; cases this
        have hle2 := sumList_map_le w.srv.conns _ _ hle
        rcases Nat.lt_or_eq_of_le hle2 with hlt | heq
        · left; exact hlt
        · right; exact ⟨heq, hthird⟩

end MicroHttp
