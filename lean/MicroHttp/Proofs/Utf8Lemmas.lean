/-
  UTF-8 validation is insensitive to ASCII lower-casing; consequences for `Header.tryFrom` (C15).
-/
import MicroHttp.Headers
namespace MicroHttp.Utf8Lemmas
open MicroHttp

theorem lower_ge (b : Byte) (h : ¬ b < 0x80) : asciiLowerByte b = b := by
  unfold asciiLowerByte
  have : ¬ (0x41 ≤ b && b ≤ 0x5A) = true := by
    simp only [Bool.and_eq_true, decide_eq_true_eq, not_and]
    simp only [UInt8.lt_iff_toNat_lt, UInt8.le_iff_toNat_le] at h ⊢
    simp at h ⊢
    omega
  rw [if_neg this]

theorem lower_lt (b : Byte) (h : b < 0x80) : asciiLowerByte b < 0x80 := by
  unfold asciiLowerByte
  split
  · rename_i h2
    simp only [Bool.and_eq_true, decide_eq_true_eq] at h2
    simp only [UInt8.lt_iff_toNat_lt, UInt8.le_iff_toNat_le, UInt8.toNat_add] at h h2 ⊢
    simp at h h2 ⊢
    omega
  · exact h

theorem lower_le_iff (b c : Byte) (hc : 0x80 ≤ c) : (asciiLowerByte b ≤ c) = (b ≤ c) := by
  by_cases hb : b < 0x80
  · have := lower_lt b hb
    simp only [UInt8.lt_iff_toNat_lt, UInt8.le_iff_toNat_le] at *
    simp at *
    constructor <;> intro <;> omega
  · rw [lower_ge b hb]

theorem le_lower_iff (b c : Byte) (hc : 0x80 ≤ c) : (c ≤ asciiLowerByte b) = (c ≤ b) := by
  by_cases hb : b < 0x80
  · have := lower_lt b hb
    simp only [UInt8.lt_iff_toNat_lt, UInt8.le_iff_toNat_le] at *
    simp at *
    constructor <;> intro <;> omega
  · rw [lower_ge b hb]

theorem isCont_lower (b : Byte) : isCont (asciiLowerByte b) = isCont b := by
  unfold isCont
  simp only [lower_le_iff b 0xBF (by decide), le_lower_iff b 0x80 (by decide)]

theorem utf8Go_lower (fuel off : Nat) (bs : List Byte) :
    utf8Go fuel off (asciiLower bs) = utf8Go fuel off bs := by
  induction fuel generalizing off bs with
  | zero => cases bs <;> simp [asciiLower, utf8Go]
  | succ fuel ih =>
    unfold asciiLower at ih ⊢
    cases bs with
    | nil => simp [utf8Go]
    | cons b rest =>
      by_cases hb : b < 0x80
      · have := lower_lt b hb
        simp only [List.map_cons, utf8Go, this, hb, if_true, ih]
      · rw [List.map_cons, lower_ge b hb]
        have ihn1 : ∀ off x, utf8Go fuel off [asciiLowerByte x] = utf8Go fuel off [x] :=
          fun off x => ih off [x]
        have ihc1 : ∀ off x r, utf8Go fuel off (asciiLowerByte x :: List.map asciiLowerByte r) =
            utf8Go fuel off (x :: r) := fun off x r => ih off (x :: r)
        have ihc2 : ∀ off x y r, utf8Go fuel off (asciiLowerByte x :: asciiLowerByte y :: List.map asciiLowerByte r) =
            utf8Go fuel off (x :: y :: r) := fun off x y r => ih off (x :: y :: r)
        rcases rest with _ | ⟨b1, _ | ⟨b2, _ | ⟨b3, r3⟩⟩⟩ <;>
          simp only [utf8Go, List.map_cons, List.map_nil, isCont_lower, ih, ihn1, ihc1, ihc2, hb, if_false,
            le_lower_iff _ 0xA0 (by decide), le_lower_iff _ 0x80 (by decide), le_lower_iff _ 0x90 (by decide),
            lower_le_iff _ 0xBF (by decide), lower_le_iff _ 0x9F (by decide), lower_le_iff _ 0x8F (by decide)]

theorem isUtf8_lower (bs : List Byte) : isUtf8 (asciiLower bs) = isUtf8 bs := by
  unfold isUtf8 utf8Check
  have : (asciiLower bs).length = bs.length := by simp [asciiLower]
  rw [this, utf8Go_lower]

theorem lower_idem_byte (b : Byte) : asciiLowerByte (asciiLowerByte b) = asciiLowerByte b := by
  unfold asciiLowerByte
  split
  · rename_i h
    have : ¬ (0x41 ≤ b + 0x20 && b + 0x20 ≤ 0x5A) = true := by
      simp only [Bool.and_eq_true, decide_eq_true_eq, not_and] at h ⊢
      simp only [UInt8.le_iff_toNat_le, UInt8.toNat_add] at h ⊢
      simp at h ⊢
      omega
    rw [if_neg this]
  · rfl

theorem asciiLower_idem (bs : List Byte) : asciiLower (asciiLower bs) = asciiLower bs := by
  simp [asciiLower, lower_idem_byte]

theorem name_case_insensitive (n n' : List Byte) (h : asciiLower n = asciiLower n') :
    Header.tryFrom n = Header.tryFrom n' := by
  unfold Header.tryFrom
  rw [← isUtf8_lower n, ← isUtf8_lower n', h]

theorem tryFrom_raw (hd : Header) : Header.tryFrom hd.raw = some hd := by
  cases hd <;> decide

theorem name_recognised (hd : Header) (n : List Byte) (h : asciiLower n = asciiLower hd.raw) :
    Header.tryFrom n = some hd := by
  rw [name_case_insensitive n hd.raw h, tryFrom_raw]

end MicroHttp.Utf8Lemmas
