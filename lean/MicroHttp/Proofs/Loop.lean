/-
  Proofs.Loop — `try_read`'s loop refines the automaton (induction on fuel).
-/
import MicroHttp.Proofs.Rel
namespace MicroHttp
variable {RL H : Type}

theorem drop_drop_add (buf : List Byte) (a b : Nat) : (buf.drop a).drop b = buf.drop (a + b) := by
  simp [List.drop_drop]

theorem phaseOf_isLine_of (c : Conn RL H) (h : c.state ≠ .body) : (phaseOf c).isLine = true := by
  unfold phaseOf
  cases hs : c.state <;> cases hp : c.pending <;> simp_all [Phase.isLine]

/-- the loop stops with a parse error that the automaton also reports, nothing emitted -/
theorem Rel_err (P : Params RL H) (c : Conn RL H) (rest : List Byte) (e : ReqErr)
    (hpre : preOut c = [])
    (h : feed P c.limit ⟨phaseOf c, []⟩ rest = ([], .error e)) : Rel P c rest (c, some (.parse e)) := by
  unfold Rel
  rw [h, hpre]
  simp [delivers, conts, attach]

/-- the loop stops because the line is incomplete: the rest becomes the window -/
theorem Rel_acc (P : Params RL H) (c : Conn RL H) (rest : List Byte)
    (hst : c.state = .reqLine ∨ c.state = .headers) (hinv : LInv P c)
    (hno : findCRLF rest = none) (hlt : rest.length < P.B) :
    Rel P c rest ({ c with win := rest }, none) := by
  have hnb : c.state ≠ .body := by rcases hst with h | h <;> simp [h]
  have hnr : c.state ≠ .ready := by rcases hst with h | h <;> simp [h]
  have hline := phaseOf_isLine_of c hnb
  have hacc := feed_accumulate P c.limit (phaseOf c) hline [] rest (by simpa using hno) (by simpa using hlt)
  have hpre : preOut c = [] := by
    unfold preOut; rcases hst with h | h <;> simp [h]
  unfold Rel
  rw [hacc, hpre]
  simp only [List.nil_append, delivers, conts, attach, List.append_nil, if_true, true_and]
  refine ⟨rfl, hnr, ⟨hinv.hdr, hinv.bod, hinv.rdy, hinv.nb⟩, hlt, hno, ?_, trivial⟩
  intro h; exact absurd h hnb

abbrev IH (P : Params RL H) (buf : List Byte) (fuel : Nat) : Prop :=
  ∀ (c : Conn RL H) (start : Nat), start ≤ buf.length →
      2 * (buf.length - start) + (if c.state = .ready then 1 else 0) < fuel → LInv P c →
      Rel P c (buf.drop start) (loop P fuel c buf start buf.length)

theorem loop_ready (P : Params RL H) (buf : List Byte) (fuel : Nat) (ih : IH P buf fuel)
    (c : Conn RL H) (start : Nat) (hs : start ≤ buf.length)
    (hfuel : 2 * (buf.length - start) + (if c.state = .ready then 1 else 0) < fuel + 1)
    (hinv : LInv P c) (hst : c.state = .ready) :
    Rel P c (buf.drop start) (loop P (fuel + 1) c buf start buf.length) := by
  obtain ⟨r, hp⟩ := hinv.rdy hst
  have hnb := hinv.nb (by rw [hst]; decide)
  rw [loop]
  simp only [hst, stepReady, hp, pure, Except.pure]
  have hrec := ih { c with state := .reqLine, toRead := 0, pending := none, files := [],
                           parsed := c.parsed ++ [{ r with files := c.files }] }
    start hs (by simp [hst] at hfuel ⊢; omega)
    ⟨(by intro h; simp at h), (by intro h; simp at h), (by intro h; simp at h), (by intro _; exact hnb)⟩
  refine Rel_step P (o := []) (D := [r]) hrec ?_ rfl rfl ?_ ?_ ?_ ?_
  · simp [phaseOf, hst]
  · simp [conts]
  · simp [preOut, hst, hp, delivers]
  · simp [attach]
  · simp

end MicroHttp
