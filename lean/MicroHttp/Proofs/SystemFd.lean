/-
  Proofs.SystemFd — the per-descriptor part of the system invariant (`FdOK`): what relates ONE
  connection of the server to the ghost logs of its descriptor (bytes sent / still unread / received,
  requests yielded, responses queued and supplied, outstanding tokens), and how the elementary
  actions on a connection (client sends, `respond`, accept) preserve it.
-/
import MicroHttp.System
import MicroHttp.Proofs.Sched
import MicroHttp.Proofs.KernelStep
namespace MicroHttp

/-! ### interleavings, as mark lists -/

/-- `q` is an interleaving of `a` (marked `true`) and `b` (marked `false`) -/
def Marks (q a b : List Response) : Prop :=
  ∃ marks : List Bool, marks.length = q.length ∧
    ((q.zip marks).filter (·.2)).map (·.1) = a ∧
    ((q.zip marks).filter (fun x => !x.2)).map (·.1) = b

theorem Marks.nil : Marks [] [] [] := ⟨[], rfl, rfl, rfl⟩

theorem zip_replicate_filter_true (l : List Response) :
    ((l.zip (List.replicate l.length true)).filter (·.2)).map (·.1) = l ∧
    ((l.zip (List.replicate l.length true)).filter (fun x => !x.2)).map (·.1) = [] := by
  induction l with
  | nil => exact ⟨rfl, rfl⟩
  | cons x xs ih =>
    simp only [List.length_cons, List.replicate_succ, List.zip_cons_cons, List.filter_cons]
    simp only [if_true, Bool.not_true, Bool.false_eq_true, if_false, List.map_cons, ih.1, ih.2, and_self]

theorem zip_replicate_filter_false (l : List Response) :
    ((l.zip (List.replicate l.length false)).filter (·.2)).map (·.1) = [] ∧
    ((l.zip (List.replicate l.length false)).filter (fun x => !x.2)).map (·.1) = l := by
  induction l with
  | nil => exact ⟨rfl, rfl⟩
  | cons x xs ih =>
    simp only [List.length_cons, List.replicate_succ, List.zip_cons_cons, List.filter_cons]
    simp only [Bool.false_eq_true, if_false, Bool.not_false, if_true, List.map_cons, ih.1, ih.2, and_self]

/-- the application's answers go to the end of the queue -/
theorem Marks.append_left {q a b : List Response} (h : Marks q a b) (l : List Response) :
    Marks (q ++ l) (a ++ l) b := by
  obtain ⟨m, hm, h1, h2⟩ := h
  refine ⟨m ++ List.replicate l.length true, by simp [hm], ?_, ?_⟩
  · rw [List.zip_append hm.symm, List.filter_append, List.map_append, h1, (zip_replicate_filter_true l).1]
  · rw [List.zip_append hm.symm, List.filter_append, List.map_append, h2, (zip_replicate_filter_true l).2,
      List.append_nil]

/-- … and so do the server's own replies -/
theorem Marks.append_right {q a b : List Response} (h : Marks q a b) (l : List Response) :
    Marks (q ++ l) a (b ++ l) := by
  obtain ⟨m, hm, h1, h2⟩ := h
  refine ⟨m ++ List.replicate l.length false, by simp [hm], ?_, ?_⟩
  · rw [List.zip_append hm.symm, List.filter_append, List.map_append, h1, (zip_replicate_filter_false l).1,
      List.append_nil]
  · rw [List.zip_append hm.symm, List.filter_append, List.map_append, h2, (zip_replicate_filter_false l).2]

/-! ### the per-descriptor invariant -/

/-- Connection `c` and the ghost logs of its descriptor: `L` the payload limit recorded at accept,
    `sent` all bytes the client sent, `unread` those still in the socket, `got` the bytes written to
    the client, `yl` the requests yielded, `q` the responses queued, `sup` the answers supplied,
    `ntok` the number of outstanding tokens of the descriptor. -/
structure FdOK (c : Conn0) (L : Nat) (sent unread got : List Byte) (yl : List Request)
    (q sup : List Response) (ntok : Nat) : Prop where
  limit : c.limit = L
  files : c.files = []
  filesNil : (phaseOf c).filesNil
  /-- input side: the consumed bytes `used`, and the server's own replies `ints` -/
  inn : ∃ used ints, sent = used ++ unread ∧ Marks q sup ints ∧
    ∀ outs a, feed P0 L Abs.fresh used = (outs, .ok a) →
      absOf c = a ∧ yl = delivers outs ∧ ints = conts outs
  /-- output side -/
  out : got ++ unsentC c = q.flatMap Response.serialize
  toks : sup.length + ntok = yl.length

/-- a freshly accepted connection, whatever the client has already sent -/
theorem FdOK_new (L : Nat) (unread : List Byte) :
    FdOK (Conn.new L) L unread unread [] [] [] [] 0 := by
  refine ⟨rfl, rfl, trivial, ⟨[], [], rfl, Marks.nil, ?_⟩, rfl, rfl⟩
  intro outs a h
  simp only [feed] at h
  obtain ⟨rfl, h2⟩ := Prod.mk.inj h
  cases h2
  exact ⟨rfl, rfl, rfl⟩

/-- the client sends more bytes -/
theorem FdOK.send {c : Conn0} {L : Nat} {sent unread got : List Byte} {yl : List Request}
    {q sup : List Response} {ntok : Nat} (h : FdOK c L sent unread got yl q sup ntok) (bytes : List Byte) :
    FdOK c L (sent ++ bytes) (unread ++ bytes) got yl q sup ntok := by
  obtain ⟨used, ints, h1, h2, h3⟩ := h.inn
  exact ⟨h.limit, h.files, h.filesNil, ⟨used, ints, by rw [h1, List.append_assoc], h2, h3⟩, h.out, h.toks⟩

/-- `respond`: the answer is appended to the connection's queue, one token is consumed -/
theorem FdOK.respond {c : Conn0} {L : Nat} {sent unread got : List Byte} {yl : List Request}
    {q sup : List Response} {ntok : Nat} (h : FdOK c L sent unread got yl q sup (ntok + 1))
    (r : Response) :
    FdOK (enqueue c r) L sent unread got yl (q ++ [r]) (sup ++ [r]) ntok := by
  obtain ⟨used, ints, h1, h2, h3⟩ := h.inn
  refine ⟨h.limit, h.files, h.filesNil, ⟨used, ints, h1, h2.append_left [r], ?_⟩, ?_, ?_⟩
  · intro outs a hf
    exact h3 outs a hf
  · have : unsentC (enqueue c r) = unsentC c ++ r.serialize := by
      unfold unsentC
      simp [enqueue, List.flatMap_append]
    rw [this, ← List.append_assoc, h.out]
    simp [List.flatMap_append]
  · have := h.toks
    simp only [List.length_append, List.length_singleton]
    omega

end MicroHttp
