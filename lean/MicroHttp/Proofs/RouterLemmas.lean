/-
  Helper lemmas for C17 (router).
-/
import MicroHttp.Router
namespace MicroHttp.RouterLemmas
open MicroHttp

theorem methodKey_injective (m m' : Method) (a b : List Byte)
    (h : m.toStr ++ [COLON] ++ a = m'.toStr ++ [COLON] ++ b) : m = m' ∧ a = b := by
  cases m <;> cases m' <;>
    simp [Method.toStr, Method.raw, COLON] at h ⊢ <;> first | exact h | (exfalso; revert h; decide)

theorem routeKey_eq_iff (m m' : Method) (pre path abs : List Byte) :
    routeKey m pre path = m'.toStr ++ [COLON] ++ abs ↔ (m = m' ∧ pre ++ path = abs) := by
  constructor
  · intro h
    have h' : m.toStr ++ [COLON] ++ (pre ++ path) = m'.toStr ++ [COLON] ++ abs := by
      simpa [routeKey, List.append_assoc] using h
    exact methodKey_injective _ _ _ _ h'
  · rintro ⟨rfl, rfl⟩
    simp [routeKey, List.append_assoc]

theorem lookupRoute_append (rs : List (List Byte × Nat)) (k k' : List Byte) (h : Nat) :
    lookupRoute (rs ++ [(k, h)]) k' =
      match lookupRoute rs k' with
      | some x => some x
      | none => if k = k' then some h else none := by
  unfold lookupRoute
  rw [List.find?_append]
  cases hf : rs.find? (fun e => decide (e.1 = k')) with
  | some x => simp
  | none =>
    by_cases hk : k = k' <;> simp [hk]

end MicroHttp.RouterLemmas

namespace MicroHttp.RouterLemmas
open MicroHttp

theorem addRoute_some (r : Routes) (m : Method) (p : List Byte) (h x : Nat)
    (hl : lookupRoute r.routes (routeKey m r.prefix_ p) = some x) :
    r.addRoute m p h = (r, .error (routeKey m r.prefix_ p)) := by
  simp only [Routes.addRoute, hl]

theorem addRoute_none (r : Routes) (m : Method) (p : List Byte) (h : Nat)
    (hl : lookupRoute r.routes (routeKey m r.prefix_ p) = none) :
    r.addRoute m p h =
      ({ r with routes := r.routes ++ [(routeKey m r.prefix_ p, h)] }, .ok ()) := by
  simp only [Routes.addRoute, hl]

theorem addRoute_prefix (r : Routes) (m : Method) (p : List Byte) (h : Nat) :
    (r.addRoute m p h).1.prefix_ = r.prefix_ := by
  cases hl : lookupRoute r.routes (routeKey m r.prefix_ p) with
  | some x => rw [addRoute_some r m p h x hl]
  | none => rw [addRoute_none r m p h hl]

theorem addRoute_lookup (r : Routes) (m : Method) (p : List Byte) (h : Nat) (k : List Byte) :
    lookupRoute (r.addRoute m p h).1.routes k =
      match lookupRoute r.routes k with
      | some x => some x
      | none => if routeKey m r.prefix_ p = k then some h else none := by
  cases hl : lookupRoute r.routes (routeKey m r.prefix_ p) with
  | some x =>
    rw [addRoute_some r m p h x hl]
    cases hk : lookupRoute r.routes k with
    | some y => rfl
    | none =>
      by_cases hkk : routeKey m r.prefix_ p = k
      · rw [hkk] at hl; rw [hl] at hk; cases hk
      · simp [hkk]
  | none =>
    rw [addRoute_none r m p h hl]
    simp only
    rw [lookupRoute_append]

def registerAll (r : Routes) (regs : List (Method × List Byte × Nat)) : Routes :=
  regs.foldl (fun r reg => (r.addRoute reg.1 reg.2.1 reg.2.2).1) r

theorem registerAll_lookup (regs : List (Method × List Byte × Nat)) (r : Routes) (k : List Byte) :
    lookupRoute (registerAll r regs).routes k =
      match lookupRoute r.routes k with
      | some x => some x
      | none => (regs.find? (fun reg => routeKey reg.1 r.prefix_ reg.2.1 = k)).map (·.2.2) := by
  induction regs generalizing r with
  | nil => simp [registerAll]; cases lookupRoute r.routes k <;> rfl
  | cons reg regs ih =>
    have : registerAll r (reg :: regs) = registerAll (r.addRoute reg.1 reg.2.1 reg.2.2).1 regs := rfl
    rw [this, ih, addRoute_lookup, addRoute_prefix]
    cases hk : lookupRoute r.routes k with
    | some y => rfl
    | none =>
      by_cases hkk : routeKey reg.1 r.prefix_ reg.2.1 = k
      · simp [hkk]
      · simp [hkk]

theorem dispatch_registerAll (sid pre : List Byte) (regs : List (Method × List Byte × Nat)) (req : Request) :
    (registerAll { serverId := sid, prefix_ := pre } regs).dispatch req =
      (regs.find? (fun reg => reg.1 = req.line.method ∧ pre ++ reg.2.1 = getAbsPath req.line.uri)).map (·.2.2) := by
  unfold Routes.dispatch
  rw [registerAll_lookup]
  have h0 : lookupRoute ({ serverId := sid, prefix_ := pre } : Routes).routes
      (req.line.method.toStr ++ [COLON] ++ getAbsPath req.line.uri) = none := rfl
  rw [h0]
  simp only [routeKey_eq_iff]

end MicroHttp.RouterLemmas
