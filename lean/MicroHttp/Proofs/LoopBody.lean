/-
  Proofs.LoopBody — the `body` step of the loop induction, and the induction itself.
-/
import MicroHttp.Proofs.LoopLine
namespace MicroHttp
variable {RL H : Type}

theorem loop_body (P : Params RL H) (hP : P.WF) (buf : List Byte) (hB : buf.length ≤ P.B)
    (fuel : Nat) (ih : IH P buf fuel)
    (c : Conn RL H) (start : Nat) (hs : start ≤ buf.length)
    (hfuel : 2 * (buf.length - start) + (if c.state = .ready then 1 else 0) < fuel + 1)
    (hinv : LInv P c) (hst : c.state = .body) :
    Rel P c (buf.drop start) (loop P (fuel + 1) c buf start buf.length) := by
  obtain ⟨r, hp, hlen, hpos⟩ := hinv.bod hst
  have hph : phaseOf c = .body r c.bodyVec c.toRead := by simp [phaseOf, hst, hp]
  have hpre : preOut c = [] := by simp [preOut, hst]
  have hnorm := parseBody_norm P c buf start r hs hB hp hlen
  rw [loop]
  simp only [hst]
  by_cases hgt : c.toRead > buf.length - start
  · rw [if_pos hgt] at hnorm
    simp only [hnorm, Bool.false_eq_true, if_false]
    have hpart := feed_body_partial P c.limit r c.bodyVec (buf.drop start) c.toRead (by simpa using hgt)
    unfold Rel
    rw [hph, hpart, hpre]
    simp only [delivers, conts, attach, List.append_nil, if_true, true_and]
    refine ⟨?_, by simp [hst], ⟨by simp [hst], ?_, by simp [hst], by simp [hst]⟩, by simpa using hP.bpos, by simp [findCRLF], by simp, trivial⟩
    · simp [absOf, phaseOf, hst, hp]
    · intro _
      refine ⟨r, hp, ?_, ?_⟩
      · simp; omega
      · simp; omega
  · rw [if_neg hgt] at hnorm
    simp only [hnorm, if_true]
    have hrec := ih { c with bodyVec := [], toRead := 0,
                             pending := some { r with body := some (c.bodyVec ++ (buf.drop start).take c.toRead) },
                             state := .ready } (start + c.toRead)
      (by omega) (by simp at hfuel ⊢; omega)
      ⟨(by intro h; simp at h), (by intro h; simp at h), (by intro _; exact ⟨_, rfl⟩), (by intro _; rfl)⟩
    have hsplit : buf.drop start = (buf.drop start).take c.toRead ++ buf.drop (start + c.toRead) := by
      rw [← drop_drop_add]; exact (List.take_append_drop _ _).symm
    have hcomp := feed_body_complete P c.limit r c.bodyVec ((buf.drop start).take c.toRead) c.toRead
      (by simp; omega) hpos
    have hfeed := feed_append_ok P c.limit _ _ _ (buf.drop (start + c.toRead)) _ hcomp
    rw [← hsplit] at hfeed
    refine Rel_step P (o := [.deliver { r with body := some (c.bodyVec ++ (buf.drop start).take c.toRead) }])
      (D := []) hrec ?_ rfl rfl ?_ ?_ ?_ ?_
    · rw [hph, hfeed]; simp [phaseOf]
    · simp [conts]
    · simp [preOut, hst, delivers]
    · simp [attach]
    · simp

theorem loop_rel (P : Params RL H) (hP : P.WF) (buf : List Byte) (hB : buf.length ≤ P.B) :
    ∀ fuel, IH P buf fuel := by
  intro fuel
  induction fuel with
  | zero => intro c start _ h; omega
  | succ fuel ih =>
    intro c start hs hfuel hinv
    cases hst : c.state with
    | reqLine => exact loop_reqLine P hP buf hB fuel ih c start hs hfuel hinv hst
    | headers => exact loop_headers P hP buf hB fuel ih c start hs hfuel hinv hst
    | body => exact loop_body P hP buf hB fuel ih c start hs hfuel hinv hst
    | ready => exact loop_ready P buf fuel ih c start hs hfuel hinv hst

end MicroHttp
