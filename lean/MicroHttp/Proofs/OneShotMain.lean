/-
  Proofs.OneShotMain — the one-shot parser against the byte-at-a-time specification instantiated
  with the crate's own line parsers (`P0`): both directions of C14.
-/
import MicroHttp.Proofs.OneShotAgree
namespace MicroHttp.OneShotAgree
open MicroHttp MicroHttp.Grammar MicroHttp.Lines

theorem P0_wf' : P0.WF := ⟨by decide, requestLine_no_panic'⟩

theorem requestBytes_eq (rl : List Byte) (ls : List (List Byte)) (body : List Byte) :
    requestBytes rl ls body = rl ++ CRLF ++ joinLines ls ++ CRLF ++ body := rfl

/-- what the one-shot parser does with a slice the specification turns into exactly one request -/
theorem conn_to_oneShot (bs : List Byte) (r : Request) (L : Nat) (outs : List (Out RequestLine Headers))
    (hf : feed P0 L Abs.fresh bs = (outs, .ok Abs.fresh)) (hd : delivers outs = [r]) :
    Request.tryFrom bs none =
      if r.line.method = .get ∧ r.headers.contentLength > 0 then .error (.parse .invalidRequest)
      else .ok r := by
  obtain ⟨rl, ls, body, hbs, hrl, ⟨hrlno, _⟩, hls, hfold, _, hblen, hbody, hfiles⟩ :=
    delivered_is_grammar P0 P0_wf' L bs outs r hf hd
  rw [find_CRLF_eq] at hrlno
  have hls' : ∀ l ∈ ls, l ≠ [] ∧ findCRLF l = none := by
    intro l hl
    obtain ⟨h1, h2, _⟩ := hls l hl
    rw [find_CRLF_eq] at h2
    exact ⟨h1, h2⟩
  have hrl' : RequestLine.tryFrom rl = .ok r.line := hrl
  have hcl : P0.clen r.headers = r.headers.contentLength := rfl
  rw [hcl] at hblen hbody
  rw [hbs, requestBytes_eq, oneShot_norm rl ls body hrlno hls']
  simp only [reqline_minLen rl r.line hrl', if_false, hrl']
  obtain ⟨line, headers, rbody, files⟩ := r
  simp only at hfold hblen hbody hfiles ⊢
  subst hfiles
  by_cases hnil : ls = []
  · subst hnil
    simp only [foldHL, Except.ok.injEq] at hfold
    have h0 : headers = Headers.default := hfold.symm
    subst h0
    have hc0 : Headers.default.contentLength = 0 := rfl
    simp only [hc0, if_true] at hbody
    subst hbody
    simp [hc0]
  · have hutf : isUtf8 (inter ls) = true := isUtf8_inter ls (foldHL_utf8 _ _ ls hfold)
    have hfold' : foldHL P0 Headers.default ls = .ok headers := hfold
    simp only [hnil, if_false, headers_tryFrom_inter ls hnil hls', hutf, if_true, hfold']
    by_cases h0 : headers.contentLength = 0
    · simp only [h0, if_true] at hbody
      subst hbody
      simp [h0]
    · simp only [h0, if_false] at hbody
      subst hbody
      have hpos : headers.contentLength > 0 := by omega
      by_cases hg : line.method = .get
      · simp [h0, hg, hpos]
      · simp [h0, hg, hblen]

/-- the specification delivers the request of a well-formed head first, whatever follows -/
theorem feed_first_request (L : Nat) (rl : List Byte) (ls : List (List Byte)) (body extra : List Byte)
    (line : RequestLine) (h : Headers)
    (hrl : RequestLine.tryFrom rl = .ok line) (hrlOK : LineOK P0 rl)
    (hls : ∀ l ∈ ls, l ≠ [] ∧ LineOK P0 l) (hfold : foldHL P0 Headers.default ls = .ok h)
    (hL : h.contentLength ≤ L) (hbody : body.length = h.contentLength) :
    ∃ outs res, feed P0 L Abs.fresh (rl ++ CRLF ++ joinLines ls ++ CRLF ++ body ++ extra) = (outs, res) ∧
      (delivers outs).head? = some ⟨line, h, if h.contentLength = 0 then none else some body, []⟩ := by
  have hacc := grammar_accepted P0 P0_wf' L rl ls body line h hrl hrlOK hls hfold hL hbody
  rw [requestBytes_eq] at hacc
  have := feed_append_ok P0 L _ _ _ extra _ hacc
  refine ⟨_, _, this, ?_⟩
  have hc : delivers (if P0.expect h = true ∧ 0 < P0.clen h then
      [Out.cont (P0.contOf line)] else ([] : List (Out RequestLine Headers))) = [] := by
    split <;> simp [delivers]
  rw [delivers_append, delivers_append, hc]
  simp only [List.nil_append, delivers, List.cons_append, List.head?_cons]
  rfl

theorem oneShot_to_conn (bs : List Byte) (r : Request) (L : Nat)
    (h : Request.tryFrom bs none = .ok r)
    (hl : ∀ i, find CRLFCRLF bs = some i → ∀ l ∈ splitCRLF (bs.take (i + 4)), l.length + 2 ≤ P0.B)
    (hL : r.headers.contentLength ≤ L) :
    ∃ outs res, feed P0 L Abs.fresh bs = (outs, res) ∧ (delivers outs).head? = some r := by
  obtain ⟨i, q, hc, hq⟩ := oneShot_ok_shape bs r h
  have hsplit := findCRLF_split bs i hc
  have hb := findCRLF_some_bound bs i hc
  have hrlno := findCRLF_take_none bs i hc
  have hdrop : bs.drop i = CR :: LF :: bs.drop (i + 2) := by
    conv => lhs; rw [hsplit]
    have : (bs.take i).length = i := by simp; omega
    rw [List.drop_left' this]
  rw [hdrop] at hq
  obtain ⟨ls, rest, hs, hls⟩ := find4_decompose ((bs.drop (i + 2)).length + 1) _ (Nat.lt_succ_self _) q hq
  generalize hrl : bs.take i = rl at hsplit hrlno
  have hbs : bs = rl ++ CRLF ++ joinLines ls ++ CRLF ++ rest := by
    conv => lhs; rw [hsplit, hs]
    simp [CRLF]
  -- the lines are within the connection's limit
  have hfind4 := find4_lines rl ls rest hrlno hls
  rw [← hbs] at hfind4
  have hhead : bs.take (rl.length + (joinLines ls).length + 4) = rl ++ CR :: LF :: (joinLines ls ++ CRLF) := by
    rw [hbs]
    rw [show rl ++ CRLF ++ joinLines ls ++ CRLF ++ rest = (rl ++ CR :: LF :: (joinLines ls ++ CRLF)) ++ rest by
      simp [CRLF]]
    exact List.take_left' (by simp [CRLF]; omega)
  have hlines := hl _ hfind4
  rw [hhead, splitCRLF_line rl _ hrlno, splitCRLF_joinLines ls _ (fun l hl => (hls l hl).2)] at hlines
  have hrlOK : LineOK P0 rl := ⟨by rw [find_CRLF_eq]; exact hrlno, hlines rl (List.mem_cons_self ..)⟩
  have hlsOK : ∀ l ∈ ls, l ≠ [] ∧ LineOK P0 l := by
    intro l hm
    refine ⟨(hls l hm).1, by rw [find_CRLF_eq]; exact (hls l hm).2, ?_⟩
    exact hlines l (List.mem_cons_of_mem _ (List.mem_append_left _ hm))
  -- read off the one-shot result
  rw [hbs, oneShot_norm rl ls rest hrlno hls] at h
  split at h
  · cases h
  · cases hline : RequestLine.tryFrom rl with
    | error f => rw [hline] at h; cases h
    | ok line =>
      rw [hline] at h
      simp only at h
      by_cases hnil : ls = []
      · subst hnil
        simp only [if_true, Except.ok.injEq] at h
        subst h
        have := feed_first_request L rl [] [] rest line Headers.default hline hrlOK hlsOK rfl
          (Nat.zero_le _) rfl
        have hc0 : Headers.default.contentLength = 0 := rfl
        rw [hbs]
        simpa [hc0] using this
      · simp only [hnil, if_false, headers_tryFrom_inter ls hnil hls] at h
        cases hutf : isUtf8 (inter ls) with
        | false => rw [hutf] at h; cases h
        | true =>
          rw [hutf] at h
          simp only [if_true] at h
          cases hfold : foldHL P0 Headers.default ls with
          | error e => rw [hfold] at h; cases h
          | ok hh =>
            rw [hfold] at h
            simp only at h
            by_cases h0 : hh.contentLength = 0
            · simp only [h0, if_true, Except.ok.injEq] at h
              subst h
              have := feed_first_request L rl ls [] rest line hh hline hrlOK hlsOK hfold
                (by omega) (by simp [h0])
              rw [hbs]
              simpa [h0] using this
            · simp only [h0, if_false] at h
              split at h
              · cases h
              · split at h
                · rename_i hlen
                  simp only [Except.ok.injEq] at h
                  subst h
                  have := feed_first_request L rl ls rest [] line hh hline hrlOK hlsOK hfold hL hlen
                  rw [hbs]
                  simpa [h0] using this
                · cases h

end MicroHttp.OneShotAgree
