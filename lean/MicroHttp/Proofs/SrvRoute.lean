/-
  Proofs.SrvRoute — routing of tokens, responses and bytes (C07) and re-arming (C08).
-/
import MicroHttp.Proofs.SrvPoll
import MicroHttp.Proofs.SrvFlush
namespace MicroHttp

theorem yielded_tokens' (s : Srv) (ev : Ev) (tok : Token) (r : Request)
    (hy : (tok, r) ∈ (handleEv s ev).2.1) :
    (∃ c ∈ s.conns, c.fd = tok.fd ∧ c.inst = tok.inst ∧ ∃ fl rd t w, ev = .client c.fd fl rd t w) ∧
    tok ∈ (handleEv s ev).1.outstanding := by
  cases ev with
  | kill => simp only [handleEv] at hy; split at hy <;> cases hy
  | listener newFd => simp only [handleEv] at hy; split at hy <;> cases hy
  | client fd fl rd t w =>
    cases hf : findClient s.conns fd with
    | none => rw [handleEv_unknown s fd fl rd t w hf] at hy; cases hy
    | some c =>
      obtain ⟨hc, hcfd⟩ := findClient_some hf
      cases hh : fl.hup with
      | true => rw [handleEv_hup s fd fl rd t w c hf hh] at hy; cases hy
      | false =>
        cases hi : fl.inn with
        | true =>
          cases hp : (c.read rd t).2.2 with
          | some p => rw [handleEv_in_panic s fd fl rd t w c hf hh hi p hp] at hy; cases hy
          | none =>
            rw [handleEv_in s fd fl rd t w c hf hh hi hp] at hy ⊢
            simp only at hy ⊢
            obtain ⟨r0, hr0, e⟩ := List.mem_map.mp hy
            have etok : tok = ⟨c.fd, c.inst⟩ := (congrArg Prod.fst e).symm
            subst etok
            refine ⟨⟨c, hc, rfl, rfl, fl, rd, t, w, by rw [hcfd]⟩, ?_⟩
            apply List.mem_append_right
            exact List.mem_map.mpr ⟨r0, hr0, rfl⟩
        | false =>
          cases ho : fl.out with
          | true => rw [handleEv_out s fd fl rd t w c hf hh hi ho] at hy; cases hy
          | false => rw [handleEv_noflags s fd fl rd t w c hf hh hi ho] at hy; cases hy

theorem wrote_own_bytes' (s : Srv) (ev : Ev) (fd inst : Nat) (bytes : List Byte)
    (hw : Effect.wrote fd inst bytes ∈ (handleEv s ev).2.2.1) :
    ∃ c ∈ s.conns, c.fd = fd ∧ c.inst = inst ∧ bytes <+: unsentC c.conn := by
  cases ev with
  | kill => simp only [handleEv] at hw; split at hw <;> cases hw
  | listener newFd => simp only [handleEv] at hw; split at hw <;> simp at hw
  | client fd0 fl rd t w =>
    cases hf : findClient s.conns fd0 with
    | none => rw [handleEv_unknown s fd0 fl rd t w hf] at hw; cases hw
    | some c =>
      obtain ⟨hc, hcfd⟩ := findClient_some hf
      cases hh : fl.hup with
      | true => rw [handleEv_hup s fd0 fl rd t w c hf hh] at hw; cases hw
      | false =>
        cases hi : fl.inn with
        | true =>
          cases hp : (c.read rd t).2.2 with
          | some p => rw [handleEv_in_panic s fd0 fl rd t w c hf hh hi p hp] at hw; cases hw
          | none =>
            rw [handleEv_in s fd0 fl rd t w c hf hh hi hp] at hw
            simp only at hw
            split at hw <;> simp at hw
        | false =>
          cases ho : fl.out with
          | true =>
            rw [handleEv_out s fd0 fl rd t w c hf hh hi ho] at hw
            simp only at hw
            rcases List.mem_append.mp hw with hw | hw
            · split at hw
              · cases hw
              · simp only [List.mem_singleton, Effect.wrote.injEq] at hw
                obtain ⟨rfl, rfl, rfl⟩ := hw
                exact ⟨c, hc, hcfd, rfl, Client.write_prefix c w⟩
            · split at hw <;> simp at hw
          | false => rw [handleEv_noflags s fd0 fl rd t w c hf hh hi ho] at hw; cases hw

/-! ### respond -/

theorem respond_routes' (s : Srv) (h : SrvInv s) (tok : Token) (ht : tok ∈ s.outstanding) (r : Response) :
    ∃ c, findClient s.conns tok.fd = some c ∧ c.inst = tok.inst ∧
      (∀ c' ∈ (respond s tok r).1.conns, c'.fd ≠ tok.fd → c' ∈ s.conns) ∧
      (∀ c', findClient (respond s tok r).1.conns tok.fd = some c' →
        c'.inst = tok.inst ∧
        c'.conn.respQ = (if c.state = .closed then c.conn.respQ else c.conn.respQ ++ [r]) ∧
        c'.conn.respBuf = c.conn.respBuf ∧ c'.inflight + 1 = c.inflight) ∧
      (respond s tok r).2.1 = .ok := by
  obtain ⟨c, hc, hf, e1, e2, hpos⟩ := h.token_client ht
  refine ⟨c, hf, e2, ?_⟩
  rw [respond_eq_some s tok r c hf hpos]
  simp only
  have hXfd : ({ respondClient c r with inflight := (respondClient c r).inflight - 1 } : Client).fd = tok.fd := by
    simp only; rw [respondClient_fd, e1]
  refine ⟨?_, ?_, trivial⟩
  · intro c' hc' hne
    rcases mem_replaceClient hc' with ⟨rfl, _⟩ | ⟨hm, _⟩
    · exact absurd hXfd hne
    · exact hm
  · intro c' hf'
    have hself := findClient_replace_self s.conns
      { respondClient c r with inflight := (respondClient c r).inflight - 1 } c (by rw [hXfd]; exact hf)
    rw [hXfd, hf'] at hself
    have := Option.some.inj hself
    subst this
    simp only
    refine ⟨by rw [respondClient_inst, e2], ?_, ?_, by rw [respondClient_inflight]; omega⟩
    · by_cases hcl : c.state = .closed
      · rw [respondClient_closed c r hcl, if_pos hcl]
      · rw [(respondClient_open c r hcl).2.1, if_neg hcl]; rfl
    · by_cases hcl : c.state = .closed
      · rw [respondClient_closed c r hcl]
      · rw [(respondClient_open c r hcl).2.1]; rfl

theorem respond_closed_dropped' (s : Srv) (h : SrvInv s) (tok : Token) (ht : tok ∈ s.outstanding) (r : Response)
    (c : Client) (hc : findClient s.conns tok.fd = some c) (hcl : c.state = .closed) :
    ∀ c' ∈ (respond s tok r).1.conns, ∃ c0 ∈ s.conns, c0.fd = c'.fd ∧ c'.conn = c0.conn := by
  obtain ⟨c1, _, hf, _, _, hpos⟩ := h.token_client ht
  rw [hc] at hf
  have := Option.some.inj hf
  subst this
  rw [respond_eq_some s tok r c hc hpos, respondClient_closed c r hcl]
  intro c' hc'
  rcases mem_replaceClient hc' with ⟨rfl, _⟩ | ⟨hm, _⟩
  · exact ⟨c, (findClient_some hc).1, rfl, rfl⟩
  · exact ⟨c', hm, rfl, rfl⟩

theorem respond_arms_out' (s : Srv) (h : SrvInv s) (tok : Token) (ht : tok ∈ s.outstanding) (r : Response)
    (c : Client) (hc : findClient s.conns tok.fd = some c) (hopen : c.state ≠ .closed) :
    ∃ c', findClient (respond s tok r).1.conns tok.fd = some c' ∧ c'.state = .awaitingOut ∧
      c'.interest = .out ∧ pendingWrite c'.conn = true := by
  obtain ⟨c1, hmem, hf, _, _, hpos⟩ := h.token_client ht
  rw [hc] at hf
  have := Option.some.inj hf
  subst this
  have hcfd := (findClient_some hc).2
  rw [respond_eq_some s tok r c hc hpos]
  obtain ⟨o1, o2, o3, o4⟩ := respondClient_open c r hopen
  have hXfd : ({ respondClient c r with inflight := (respondClient c r).inflight - 1 } : Client).fd = tok.fd := by
    simp only; rw [respondClient_fd, hcfd]
  have hself := findClient_replace_self s.conns
    { respondClient c r with inflight := (respondClient c r).inflight - 1 } c (by rw [hXfd]; exact hc)
  rw [hXfd] at hself
  refine ⟨_, hself, o1, ?_, by simp only; rw [o2]; exact pendingWrite_enqueue c.conn r⟩
  simp only
  cases hs : c.state with
  | closed => exact absurd hs hopen
  | awaitingIn => exact o3 hs
  | awaitingOut => rw [o4 hs]; exact (h.clients c hmem).out_interest hs

/-! ### stale OUT interest -/

theorem stale_out_repaired' (s : Srv) (fd : Nat) (c : Client) (hf : findClient s.conns fd = some c)
    (hs : c.state = .awaitingIn) (hp : pendingWrite c.conn = false)
    (rd : Recv) (t : List Byte) (w : SinkStep) :
    ∃ c', findClient (handleEv s (.client fd { out := true } rd t w)).1.conns fd = some c' ∧
      c'.state = .awaitingIn ∧ c'.interest = .inn ∧ c'.conn = c.conn ∧
      (handleEv s (.client fd { out := true } rd t w)).2.2.2 = none := by
  have hcfd := (findClient_some hf).2
  subst hcfd
  rw [handleEv_out s c.fd { out := true } rd t w c hf rfl rfl rfl]
  have hw : c.write w = ({ c with state := .awaitingIn }, []) := by
    rw [Client.write_eq, tryWrite_nopending c.conn w hp]
    simp only [hs, reduceCtorEq, if_false]
  have harm : armIn (c.write w).1 = { c with state := .awaitingIn, interest := .inn } := by
    rw [hw]; unfold armIn; simp only [if_true]
  rw [harm]
  exact ⟨_, findClient_replace_self s.conns { c with state := .awaitingIn, interest := .inn } c hf,
    rfl, rfl, rfl, rfl⟩

end MicroHttp
