/-
  Proofs.LoopLine — the `reqLine` and `headers` steps of the loop induction.
-/
import MicroHttp.Proofs.Loop
namespace MicroHttp
variable {RL H : Type}

theorem drop_split (buf : List Byte) (start i : Nat) :
    buf.drop start = (buf.drop start).take (i + 2) ++ buf.drop (start + i + 2) := by
  rw [Nat.add_assoc, ← drop_drop_add]; exact (List.take_append_drop _ _).symm

theorem loop_reqLine (P : Params RL H) (hP : P.WF) (buf : List Byte) (hB : buf.length ≤ P.B)
    (fuel : Nat) (ih : IH P buf fuel)
    (c : Conn RL H) (start : Nat) (hs : start ≤ buf.length)
    (hfuel : 2 * (buf.length - start) + (if c.state = .ready then 1 else 0) < fuel + 1)
    (hinv : LInv P c) (hst : c.state = .reqLine) :
    Rel P c (buf.drop start) (loop P (fuel + 1) c buf start buf.length) := by
  have hph : phaseOf c = .line := by simp [phaseOf, hst]
  have hpre : preOut c = [] := by simp [preOut, hst]
  have hnb := hinv.nb (by rw [hst]; decide)
  have hnorm := parseRequestLine_norm P c buf start hs hB
  rw [loop]
  simp only [hst]
  cases hf : findCRLF (buf.drop start) with
  | none =>
    rw [hf] at hnorm
    simp only at hnorm
    by_cases hfull : buf.length = P.B ∧ start = 0
    · rw [if_pos hfull] at hnorm
      simp only [hnorm]
      obtain ⟨hlen, h0⟩ := hfull
      subst h0
      apply Rel_err P c _ _ hpre
      rw [hph, List.drop_zero]
      exact feed_tooLong P c.limit .line rfl buf (by simpa using hf) hlen hP.bpos
    · rw [if_neg hfull] at hnorm
      simp only [hnorm, Bool.false_eq_true, if_false]
      have hlt : (buf.drop start).length < P.B := by
        simp only [List.length_drop]
        by_cases h0 : start = 0
        · subst h0; have : buf.length ≠ P.B := fun h => hfull ⟨h, rfl⟩; omega
        · omega
      exact Rel_acc P c _ (Or.inl hst) hinv hf hlt
  | some i =>
    rw [hf] at hnorm
    simp only at hnorm
    have hb := findCRLF_some_bound _ _ hf
    simp only [List.length_drop] at hb
    have hi : i + 2 ≤ P.B := by omega
    have hline := feed_line P c.limit .line rfl (buf.drop start) i hf hi (buf.drop (start + i + 2))
    rw [← drop_split] at hline
    cases hrl : P.parseRL ((buf.drop start).take i) with
    | error f =>
      rw [hrl] at hnorm
      simp only [hnorm]
      cases f with
      | panic p => exact absurd hrl (hP.rlNoPanic _ _)
      | parse e =>
        apply Rel_err P c _ _ hpre
        rw [hph, hline]; simp [processLine, hrl]
    | ok rl =>
      rw [hrl] at hnorm
      simp only [hnorm, if_true]
      have hrec := ih { c with pending := some ⟨rl, P.h0, none, []⟩, state := .headers } (start + i + 2)
        (by omega) (by simp at hfuel ⊢; omega)
        ⟨(by intro _; exact ⟨_, rfl⟩), (by intro h; simp at h), (by intro h; simp at h), (by intro _; exact hnb)⟩
      refine Rel_step P (o := []) (D := []) hrec ?_ rfl rfl ?_ ?_ ?_ ?_
      · rw [hph, hline]; simp [processLine, hrl, phaseOf]
      · simp [conts]
      · simp [preOut, hst, delivers]
      · simp [attach]
      · simp

end MicroHttp

namespace MicroHttp
variable {RL H : Type}

theorem loop_headers (P : Params RL H) (hP : P.WF) (buf : List Byte) (hB : buf.length ≤ P.B)
    (fuel : Nat) (ih : IH P buf fuel)
    (c : Conn RL H) (start : Nat) (hs : start ≤ buf.length)
    (hfuel : 2 * (buf.length - start) + (if c.state = .ready then 1 else 0) < fuel + 1)
    (hinv : LInv P c) (hst : c.state = .headers) :
    Rel P c (buf.drop start) (loop P (fuel + 1) c buf start buf.length) := by
  obtain ⟨r, hp⟩ := hinv.hdr hst
  have hph : phaseOf c = .hdrs r := by simp [phaseOf, hst, hp]
  have hpre : preOut c = [] := by simp [preOut, hst]
  have hnb := hinv.nb (by rw [hst]; decide)
  have hnorm := parseHeaders_norm P c buf start r hs hB hp
  rw [loop]
  simp only [hst]
  cases hf : findCRLF (buf.drop start) with
  | none =>
    rw [hf] at hnorm
    simp only at hnorm
    by_cases hfull : start = 0 ∧ buf.length = P.B
    · rw [if_pos hfull] at hnorm
      simp only [hnorm]
      obtain ⟨h0, hlen⟩ := hfull
      subst h0
      apply Rel_err P c _ _ hpre
      rw [hph, List.drop_zero]
      exact feed_tooLong P c.limit (.hdrs r) rfl buf (by simpa using hf) hlen hP.bpos
    · rw [if_neg hfull] at hnorm
      simp only [hnorm, Bool.false_eq_true, if_false]
      have hlt : (buf.drop start).length < P.B := by
        simp only [List.length_drop]
        by_cases h0 : start = 0
        · subst h0; have : buf.length ≠ P.B := fun h => hfull ⟨rfl, h⟩; omega
        · omega
      exact Rel_acc P c _ (Or.inr hst) hinv hf hlt
  | some i =>
    rw [hf] at hnorm
    have hb := findCRLF_some_bound _ _ hf
    simp only [List.length_drop] at hb
    have hi : i + 2 ≤ P.B := by omega
    have hline := feed_line P c.limit (.hdrs r) rfl (buf.drop start) i hf hi (buf.drop (start + i + 2))
    rw [← drop_split] at hline
    cases i with
    | zero =>
      simp only at hnorm
      simp only [List.take_zero, processLine] at hline
      by_cases h0 : P.clen r.headers = 0
      · rw [if_pos h0] at hnorm hline
        simp only [hnorm, if_true]
        have hrec := ih { c with state := .ready } (start + 2)
          (by omega) (by simp at hfuel ⊢; omega)
          ⟨(by intro h; simp at h), (by intro h; simp at h), (by intro _; exact ⟨r, hp⟩), (by intro _; exact hnb)⟩
        refine Rel_step P (o := [.deliver r]) (D := []) hrec ?_ rfl rfl ?_ ?_ ?_ ?_
        · rw [hph, hline]; simp [phaseOf]
        · simp [conts]
        · simp [preOut, hst, hp, delivers]
        · simp [attach]
        · simp
      · rw [if_neg h0] at hnorm hline
        by_cases hlim : P.clen r.headers > c.limit
        · rw [if_pos hlim] at hnorm hline
          simp only [hnorm]
          apply Rel_err P c _ _ hpre
          rw [hph, hline]
        · rw [if_neg hlim] at hnorm hline
          simp only [hnorm, if_true]
          have hrec := ih { c with respQ := (if P.expect r.headers then c.respQ ++ [P.contOf r.line] else c.respQ),
                                   toRead := P.clen r.headers, pending := some { r with body := some [] },
                                   state := .body } (start + 2)
            (by omega) (by simp at hfuel ⊢; omega)
            ⟨(by intro h; simp at h), (by intro _; exact ⟨_, rfl, by simp [hnb], by simp; omega⟩),
             (by intro h; simp at h), (by intro h; simp at h)⟩
          refine Rel_step P (o := if P.expect r.headers then [.cont (P.contOf r.line)] else []) (D := [])
            hrec ?_ rfl rfl ?_ ?_ ?_ ?_
          · rw [hph, hline]; simp [phaseOf, hnb]
          · by_cases he : P.expect r.headers <;> simp [he, conts]
          · by_cases he : P.expect r.headers <;> simp [he, preOut, hst, delivers]
          · simp [attach]
          · simp
    | succ j =>
      simp only at hnorm
      have hcons : ∃ x xs, (buf.drop start).take (j + 1) = x :: xs := by
        cases hd : buf.drop start with
        | nil => rw [hd] at hf; simp [findCRLF] at hf
        | cons x xs => exact ⟨x, xs.take j, by simp⟩
      obtain ⟨x, xs, hxs⟩ := hcons
      rw [hxs] at hline hnorm
      simp only [processLine] at hline
      have hidx : j + 1 + start + 2 = start + (j + 1) + 2 := by omega
      cases hhl : P.parseHL r.headers (x :: xs) with
      | error e =>
        rw [hhl] at hnorm hline
        simp only [hnorm]
        apply Rel_err P c _ _ hpre
        rw [hph, hline]
      | ok h' =>
        rw [hhl] at hnorm hline
        simp only [hnorm, if_true]
        rw [hidx]
        have hrec := ih { c with pending := some { r with headers := h' } } (start + (j + 1) + 2)
          (by omega) (by simp [hst] at hfuel ⊢; omega)
          ⟨(by intro _; exact ⟨_, rfl⟩), (by intro h; simp [hst] at h), (by intro h; simp [hst] at h),
           (by intro _; exact hnb)⟩
        refine Rel_step P (o := []) (D := []) hrec ?_ rfl rfl ?_ ?_ ?_ ?_
        · rw [hph, hline]; simp [phaseOf, hst]
        · simp [conts]
        · simp [preOut, hst, delivers]
        · simp [attach]
        · simp

end MicroHttp
