/-
  Proofs.OneShotAgree — `Request::try_from` in closed form on a byte string that is laid out as
  request line, header lines, blank line, remainder.
-/
import MicroHttp.Proofs.Lines
import MicroHttp.Proofs.Utf8Append
import MicroHttp.Proofs.ReqLine
namespace MicroHttp.OneShotAgree
open MicroHttp MicroHttp.Grammar MicroHttp.Lines

theorem oneShot_norm (rl : List Byte) (ls : List (List Byte)) (rest : List Byte)
    (hrl : findCRLF rl = none) (hls : ∀ l ∈ ls, l ≠ [] ∧ findCRLF l = none) :
    Request.tryFrom (rl ++ CRLF ++ joinLines ls ++ CRLF ++ rest) none =
      if rl.length < RequestLine.minLen then .error (.parse .invalidRequest)
      else match RequestLine.tryFrom rl with
        | .error f => .error f
        | .ok line =>
          if ls = [] then .ok ⟨line, Headers.default, none, []⟩
          else match Headers.tryFrom (inter ls) with
            | .error e => .error (.parse e)
            | .ok h =>
              if h.contentLength = 0 then .ok ⟨line, h, none, []⟩
              else if line.method = .get then .error (.parse .invalidRequest)
              else if rest.length = h.contentLength then .ok ⟨line, h, some rest, []⟩
              else .error (.parse .invalidRequest) := by
  generalize hX : joinLines ls ++ CRLF ++ rest = X
  have hbs : rl ++ CRLF ++ joinLines ls ++ CRLF ++ rest = rl ++ CR :: LF :: X := by
    rw [← hX]; simp [CRLF]
  rw [hbs]
  have hfind1 : find CRLF (rl ++ CR :: LF :: X) = some rl.length := by
    rw [find_CRLF_eq]; exact findCRLF_append rl X hrl
  have s1 : slice (rl ++ CR :: LF :: X) 0 rl.length = .ok rl := by
    rw [ReqLine.slice_ok0 _ 0 rl.length (Nat.zero_le _) (by simp)]
    simp
  have s2 : sliceFrom (rl ++ CR :: LF :: X) rl.length = .ok (CR :: LF :: X) := by
    simp [sliceFrom]
  have hfind2 : find CRLFCRLF (CR :: LF :: X) = some (joinLines ls).length := by
    have := find4_lines [] ls rest rfl hls
    simp only [List.nil_append, List.length_nil, Nat.zero_add] at this
    rw [← this, ← hX]; simp [CRLF]
  unfold Request.tryFrom
  simp only [Bool.false_eq_true, if_false, hfind1, s1, s2, bind, Except.bind]
  split
  · rfl
  · cases hline : RequestLine.tryFrom rl with
    | error f => rfl
    | ok line =>
      simp only [hfind2]
      by_cases hnil : ls = []
      · subst hnil
        simp [joinLines, pure, Except.pure]
      · simp only [hnil, if_false]
        have hj := joinLines_eq_inter ls hnil
        have hlen : (joinLines ls).length = (inter ls).length + 1 + 1 := by
          rw [hj]; simp [CRLF]
        have hX' : X = inter ls ++ CR :: LF :: CR :: LF :: rest := by
          rw [← hX, hj]; simp [CRLF]
        have s3 : sliceFrom (rl ++ CR :: LF :: X) (rl.length + 2) = .ok X := by
          have : (rl ++ CR :: LF :: X).drop (rl.length + 2) = X := by
            rw [show rl ++ CR :: LF :: X = (rl ++ [CR, LF]) ++ X by simp]
            exact List.drop_left' (by simp)
          simp [sliceFrom, this]
        have s4 : checkedSub ((inter ls).length + 1 + 1) 2 = .ok (inter ls).length := by
          simp [checkedSub]
        have s5 : slice X 0 (inter ls).length = .ok (inter ls) := by
          rw [ReqLine.slice_ok0 _ 0 _ (Nat.zero_le _) (by rw [hX']; simp)]
          rw [hX']; simp
        have s6 : checkedSub X.length ((inter ls).length + 4) = .ok rest.length := by
          rw [hX']; simp [checkedSub]; omega
        have s7 : sliceFrom X ((inter ls).length + 4) = .ok rest := by
          have : X.drop ((inter ls).length + 4) = rest := by
            rw [hX', show inter ls ++ CR :: LF :: CR :: LF :: rest = (inter ls ++ [CR, LF, CR, LF]) ++ rest by simp]
            exact List.drop_left' (by simp)
          simp only [sliceFrom]
          rw [if_pos (by rw [hX']; simp), this]
        rw [hlen]
        simp only [s3, s4, s5]
        cases hh : Headers.tryFrom (inter ls) with
        | error e => rfl
        | ok h =>
          simp only [s6, s7, pure, Except.pure]
          by_cases h0 : h.contentLength = 0
          · simp only [h0, if_true]
          · by_cases hg : line.method = .get
            · simp only [h0, hg, if_true, if_false]
            · by_cases hlt : rest.length < h.contentLength
              · have : ¬ rest.length = h.contentLength := by omega
                simp only [h0, hg, hlt, this, if_true, if_false]
              · simp only [h0, hg, hlt, if_false]

/-! ### the header block -/

theorem applyLine_ok_utf8 (h h' : Headers) (l : List Byte) (hok : h.applyLine l = .ok h') :
    isUtf8 l = true := by
  cases hu : isUtf8 l with
  | true => rfl
  | false =>
    obtain ⟨e, he⟩ := HeaderLemmas.non_utf8_fatal h l hu
    rw [he] at hok; cases hok

theorem foldHL_utf8 (h h' : Headers) (ls : List (List Byte)) (hf : foldHL P0 h ls = .ok h') :
    ∀ l ∈ ls, isUtf8 l = true := by
  induction ls generalizing h with
  | nil => intro l hl; cases hl
  | cons x xs ih =>
    simp only [foldHL] at hf
    cases hx : P0.parseHL h x with
    | error e => rw [hx] at hf; cases hf
    | ok h1 =>
      rw [hx] at hf
      intro l hl
      rcases List.mem_cons.mp hl with rfl | hl
      · exact applyLine_ok_utf8 h h1 _ hx
      · exact ih h1 hf l hl

theorem foldLines_eq_foldHL (h : Headers) (ls : List (List Byte)) (hne : ∀ l ∈ ls, l ≠ []) :
    Headers.foldLines h ls = foldHL P0 h ls := by
  induction ls generalizing h with
  | nil => rfl
  | cons x xs ih =>
    have hx : x.isEmpty = false := by
      have := hne x (List.mem_cons_self ..)
      cases x <;> simp at this ⊢
    rw [Headers.foldLines, foldHL]
    simp only [hx, Bool.false_eq_true, if_false]
    have hp : P0.parseHL h x = h.applyLine x := rfl
    rw [hp]
    cases h.applyLine x with
    | error e => rfl
    | ok h1 => exact ih h1 (fun l hl => hne l (List.mem_cons_of_mem _ hl))

theorem isUtf8_inter (ls : List (List Byte)) (h : ∀ l ∈ ls, isUtf8 l = true) : isUtf8 (inter ls) = true := by
  induction ls with
  | nil => rfl
  | cons l ls ih =>
    cases ls with
    | nil => exact h l (List.mem_cons_self ..)
    | cons l' ls' =>
      rw [inter]
      apply Utf8Append.isUtf8_append_true
      · apply Utf8Append.isUtf8_append_true
        · exact h l (List.mem_cons_self ..)
        · decide
      · exact ih (fun x hx => h x (List.mem_cons_of_mem _ hx))

theorem headers_tryFrom_inter (ls : List (List Byte)) (hne : ls ≠ [])
    (hls : ∀ l ∈ ls, l ≠ [] ∧ findCRLF l = none) :
    Headers.tryFrom (inter ls) =
      if isUtf8 (inter ls) then foldHL P0 Headers.default ls else .error .invalidRequest := by
  rw [HeaderLemmas.block_eq_lines, splitCRLF_inter ls hne (fun l hl => (hls l hl).2),
    foldLines_eq_foldHL _ ls (fun l hl => (hls l hl).1)]

/-- an accepted request line has at least `min_len` bytes -/
theorem reqline_minLen (rl : List Byte) (line : RequestLine) (h : RequestLine.tryFrom rl = .ok line) :
    ¬ rl.length < RequestLine.minLen := by
  obtain ⟨hl, hne, _, _⟩ := (ReqLine.reqline_accept_iff rl line).mp h
  have h1 : 3 ≤ line.method.raw.length := by cases line.method <;> decide
  have h2 : line.version.raw.length = 8 := by cases line.version <;> rfl
  have h3 : 1 ≤ line.uri.length := by
    cases hu : line.uri with
    | nil => exact absurd hu hne
    | cons x xs => simp
  have := congrArg List.length hl
  simp only [List.length_append, List.length_cons, List.length_nil] at this
  simp only [RequestLine.minLen]
  omega

/-- a slice the one-shot parser accepts has a first CR LF and, from there, a CR LF CR LF -/
theorem oneShot_ok_shape (bs : List Byte) (r : Request) (h : Request.tryFrom bs none = .ok r) :
    ∃ i q, findCRLF bs = some i ∧ find CRLFCRLF (bs.drop i) = some q := by
  unfold Request.tryFrom at h
  simp only [Bool.false_eq_true, if_false] at h
  cases h1 : find CRLF bs with
  | none => rw [h1] at h; cases h
  | some rle =>
    rw [h1] at h
    have b1 := find_some_bound _ _ _ h1
    simp only [CRLF, List.length_cons, List.length_nil] at b1
    have s1 : slice bs 0 rle = .ok ((bs.drop 0).take (rle - 0)) :=
      ReqLine.slice_ok0 bs 0 rle (Nat.zero_le _) (by omega)
    have s2 : sliceFrom bs rle = .ok (bs.drop rle) := by
      simp only [sliceFrom]; rw [if_pos]; omega
    simp only [s1, s2, bind, Except.bind] at h
    split at h
    · cases h
    · cases hrl : RequestLine.tryFrom ((bs.drop 0).take (rle - 0)) with
      | error f => rw [hrl] at h; cases h
      | ok line =>
        rw [hrl] at h
        simp only at h
        cases h2 : find CRLFCRLF (bs.drop rle) with
        | none => rw [h2] at h; cases h
        | some q => exact ⟨rle, q, by rw [← find_CRLF_eq]; exact h1, h2⟩

end MicroHttp.OneShotAgree
