/-
  Proofs.SystemEnd — the system invariant holds along every admissible history, and what it says
  about one descriptor: the six end-to-end statements of Props/C08System.lean for any state that
  satisfies `SysInv`.
-/
import MicroHttp.Proofs.SystemInvPoll
namespace MicroHttp

theorem SysInv_step (s : Sys) (h : SysInv s) (op : SysOp) (hop : s.opOK op) : SysInv (s.step op) := by
  cases op with
  | connect fd => exact SysInv_connect s h fd hop
  | send fd bytes => exact SysInv_send s h fd bytes hop
  | drain fd n => exact SysInv_drain s h fd n hop
  | respond tok r => exact SysInv_respond s h tok r hop
  | poll => exact SysInv_poll s h

theorem SysInv_run (ops : List SysOp) (s : Sys) (h : SysInv s) (hops : s.opsOK ops) : SysInv (s.run ops) := by
  induction ops generalizing s with
  | nil => exact h
  | cons op ops ih =>
    obtain ⟨h1, h2⟩ := hops
    show SysInv ((s.step op).run ops)
    exact ih (s.step op) (SysInv_step s h op h1) h2

theorem SysInv_history (ops : List SysOp) (h : Sys.init.opsOK ops) : SysInv (Sys.init.run ops) :=
  SysInv_run ops Sys.init SysInv_init h

/-! ### one descriptor -/

theorem consumed_of_split (s : Sys) (fd : Nat) (used : List Byte)
    (h : s.sentBy fd = used ++ (s.w.sock fd).unread) : s.consumed fd = used := by
  unfold Sys.consumed
  rw [h, List.length_append, Nat.add_sub_cancel, List.take_left]

/-- a descriptor either has a connection that agrees with its logs, or has empty logs -/
theorem SysInv.fd_cases {s : Sys} (h : SysInv s) (fd : Nat) :
    (∃ c, findClient s.w.srv.conns fd = some c ∧
      FdOK c.conn (s.limitOf fd) (s.sentBy fd) (s.w.sock fd).unread (s.gotBy fd) (s.yielded fd)
        (s.queued fd) (s.supplied fd) (tokCount s.w.srv fd)) ∨
    (findClient s.w.srv.conns fd = none ∧ tokCount s.w.srv fd = 0 ∧
      s.sentBy fd = (s.w.sock fd).unread ∧ s.gotBy fd = [] ∧ s.yielded fd = [] ∧ s.queued fd = [] ∧
      s.supplied fd = []) := by
  cases hf : findClient s.w.srv.conns fd with
  | some c =>
    left
    obtain ⟨hc, rfl⟩ := findClient_some hf
    exact ⟨c, rfl, h.conns c hc⟩
  | none =>
    right
    have hfd : fd ∉ s.w.srv.fds := by
      intro hm
      obtain ⟨c, hc, e⟩ := List.mem_map.mp hm
      exact findClient_none hf c hc e
    exact ⟨rfl, tokCount_zero h.srv hfd, h.others fd hfd⟩

theorem feed_nil_ok {outs : List (Out RequestLine Headers)} {a : Abs RequestLine Headers} {L : Nat}
    (h : feed P0 L Abs.fresh [] = (outs, .ok a)) : outs = [] := by
  simp only [feed] at h
  exact (Prod.mk.inj h).1.symm

theorem SysInv.sent {s : Sys} (h : SysInv s) (fd : Nat) :
    s.sentBy fd = s.consumed fd ++ (s.w.sock fd).unread := by
  rcases h.fd_cases fd with ⟨c, _, hok⟩ | ⟨_, _, h1, _⟩
  · obtain ⟨used, ints, e1, _, _⟩ := hok.inn
    rw [consumed_of_split s fd used e1]
    exact e1
  · rw [consumed_of_split s fd [] (by rw [List.nil_append]; exact h1), List.nil_append]
    exact h1

theorem SysInv.yielded_spec {s : Sys} (h : SysInv s) (fd : Nat)
    (outs : List (Out RequestLine Headers)) (a : Abs RequestLine Headers)
    (hspec : feed P0 (s.limitOf fd) Abs.fresh (s.consumed fd) = (outs, .ok a)) :
    s.yielded fd = delivers outs ∧ Marks (s.queued fd) (s.supplied fd) (conts outs) := by
  rcases h.fd_cases fd with ⟨c, _, hok⟩ | ⟨_, _, h1, _, h3, h4, h5⟩
  · obtain ⟨used, ints, e1, e2, e3⟩ := hok.inn
    rw [consumed_of_split s fd used e1] at hspec
    obtain ⟨_, hy, hi⟩ := e3 outs a hspec
    rw [← hi]
    exact ⟨hy, e2⟩
  · rw [consumed_of_split s fd [] (by rw [List.nil_append]; exact h1)] at hspec
    rw [feed_nil_ok hspec, h3, h4, h5]
    exact ⟨rfl, Marks.nil⟩

theorem SysInv.received {s : Sys} (h : SysInv s) (fd : Nat) :
    s.gotBy fd ++
      (match findClient s.w.srv.conns fd with
       | some c => unsentOf c
       | none => []) =
    (s.queued fd).flatMap Response.serialize := by
  rcases h.fd_cases fd with ⟨c, hf, hok⟩ | ⟨hf, _, _, h2, _, h4, _⟩
  · rw [hf]
    exact hok.out
  · rw [hf, h2, h4]
    rfl

theorem SysInv.answers {s : Sys} (h : SysInv s) (fd : Nat) :
    (s.supplied fd).length + (s.w.srv.outstanding.filter (fun t => t.fd = fd)).length =
    (s.yielded fd).length := by
  rcases h.fd_cases fd with ⟨c, hf, hok⟩ | ⟨_, h0, _, _, h3, _, h5⟩
  · exact hok.toks
  · unfold tokCount at h0
    rw [h0, h3, h5]
    rfl

end MicroHttp
