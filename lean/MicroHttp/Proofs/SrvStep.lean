/-
  Proofs.SrvStep — `handleEv` branch by branch, as equations.
-/
import MicroHttp.Proofs.SrvClient
namespace MicroHttp

theorem handleEv_unknown (s : Srv) (fd : Nat) (fl : EvFlags) (rd : Recv) (t : List Byte) (w : SinkStep)
    (hf : findClient s.conns fd = none) :
    handleEv s (.client fd fl rd t w) = (s, [], [], some (.unknownFd fd)) := by
  unfold handleEv
  simp only [hf]

theorem handleEv_hup (s : Srv) (fd : Nat) (fl : EvFlags) (rd : Recv) (t : List Byte) (w : SinkStep)
    (c : Client) (hf : findClient s.conns fd = some c) (hh : fl.hup = true) :
    handleEv s (.client fd fl rd t w) =
      ({ s with conns := replaceClient s.conns { c with conn := clearWrite c.conn, state := .closed } },
       [], [], none) := by
  unfold handleEv
  simp only [hf, hh, if_true]

theorem handleEv_in (s : Srv) (fd : Nat) (fl : EvFlags) (rd : Recv) (t : List Byte) (w : SinkStep)
    (c : Client) (hf : findClient s.conns fd = some c) (hh : fl.hup = false) (hi : fl.inn = true)
    (hp : (c.read rd t).2.2 = none) :
    handleEv s (.client fd fl rd t w) =
      ({ s with conns := replaceClient s.conns (armOut (c.read rd t).1),
                outstanding := s.outstanding ++ (c.read rd t).2.1.map (fun _ => (⟨c.fd, c.inst⟩ : Token)) },
       (c.read rd t).2.1.map (fun r => ((⟨c.fd, c.inst⟩ : Token), r)),
       (if (c.read rd t).1.state = .awaitingOut then [Effect.interest fd .out] else []), none) := by
  unfold handleEv
  simp only [hf, hh, hi, if_true, Bool.false_eq_true, if_false]
  revert hp
  generalize c.read rd t = p
  obtain ⟨c', reqs, pn⟩ := p
  intro hp
  simp only at hp
  subst hp
  simp only [armOut]
  split <;> rfl

theorem handleEv_in_panic (s : Srv) (fd : Nat) (fl : EvFlags) (rd : Recv) (t : List Byte) (w : SinkStep)
    (c : Client) (hf : findClient s.conns fd = some c) (hh : fl.hup = false) (hi : fl.inn = true)
    (p : Panic) (hp : (c.read rd t).2.2 = some p) :
    handleEv s (.client fd fl rd t w) =
      ({ s with conns := replaceClient s.conns (c.read rd t).1 }, [], [], some (.connPanic p)) := by
  unfold handleEv
  simp only [hf, hh, hi, if_true, Bool.false_eq_true, if_false]
  revert hp
  generalize c.read rd t = q
  obtain ⟨c', reqs, pn⟩ := q
  intro hp
  simp only at hp
  subst hp
  rfl

theorem handleEv_out (s : Srv) (fd : Nat) (fl : EvFlags) (rd : Recv) (t : List Byte) (w : SinkStep)
    (c : Client) (hf : findClient s.conns fd = some c) (hh : fl.hup = false) (hi : fl.inn = false)
    (ho : fl.out = true) :
    handleEv s (.client fd fl rd t w) =
      ({ s with conns := replaceClient s.conns (armIn (c.write w).1) },
       [], (if (c.write w).2.isEmpty then [] else [Effect.wrote fd c.inst (c.write w).2]) ++
           (if (c.write w).1.state = .awaitingIn then [Effect.interest fd .inn] else []), none) := by
  unfold handleEv
  simp only [hf, hh, hi, ho, if_true, Bool.false_eq_true, if_false]
  generalize c.write w = p
  obtain ⟨c', bytes⟩ := p
  simp only [armIn]
  split <;> rfl

theorem handleEv_noflags (s : Srv) (fd : Nat) (fl : EvFlags) (rd : Recv) (t : List Byte) (w : SinkStep)
    (c : Client) (hf : findClient s.conns fd = some c) (hh : fl.hup = false) (hi : fl.inn = false)
    (ho : fl.out = false) :
    handleEv s (.client fd fl rd t w) = (s, [], [], none) := by
  unfold handleEv
  simp only [hf, hh, hi, ho, Bool.false_eq_true, if_false]

/-- Shape of a connection event: either nothing changes, or exactly the entry of that descriptor is
    replaced (same descriptor and identity) and tokens of that connection are appended. -/
theorem handleEv_client_shape (s : Srv) (fd : Nat) (fl : EvFlags) (rd : Recv) (t : List Byte) (w : SinkStep) :
    (handleEv s (.client fd fl rd t w)).1 = s ∨
    ∃ c c'' toks, findClient s.conns fd = some c ∧ c''.fd = fd ∧ c''.inst = c.inst ∧
      (handleEv s (.client fd fl rd t w)).1 =
        { s with conns := replaceClient s.conns c'', outstanding := s.outstanding ++ toks } := by
  cases hf : findClient s.conns fd with
  | none => left; rw [handleEv_unknown s fd fl rd t w hf]
  | some c =>
    have hcfd := (findClient_some hf).2
    cases hh : fl.hup with
    | true =>
      right
      refine ⟨c, { c with conn := clearWrite c.conn, state := .closed }, [], rfl, hcfd, rfl, ?_⟩
      rw [handleEv_hup s fd fl rd t w c hf hh, List.append_nil]
    | false =>
      cases hi : fl.inn with
      | true =>
        right
        cases hp : (c.read rd t).2.2 with
        | none =>
          refine ⟨c, armOut (c.read rd t).1, (c.read rd t).2.1.map (fun _ => (⟨c.fd, c.inst⟩ : Token)), rfl, ?_, ?_, ?_⟩
          · rw [armOut_fd, Client.read_fd]; exact hcfd
          · rw [armOut_inst, Client.read_inst]
          · rw [handleEv_in s fd fl rd t w c hf hh hi hp]
        | some p =>
          refine ⟨c, (c.read rd t).1, [], rfl, ?_, ?_, ?_⟩
          · rw [Client.read_fd]; exact hcfd
          · rw [Client.read_inst]
          · rw [handleEv_in_panic s fd fl rd t w c hf hh hi p hp, List.append_nil]
      | false =>
        cases ho : fl.out with
        | true =>
          right
          refine ⟨c, armIn (c.write w).1, [], rfl, ?_, ?_, ?_⟩
          · rw [armIn_fd, Client.write_fd]; exact hcfd
          · rw [armIn_inst, Client.write_inst]
          · rw [handleEv_out s fd fl rd t w c hf hh hi ho, List.append_nil]
        | false => left; rw [handleEv_noflags s fd fl rd t w c hf hh hi ho]

/-- the kill switch registration is never touched -/
theorem handleEv_hasKill (s : Srv) (ev : Ev) : (handleEv s ev).1.hasKill = s.hasKill := by
  cases ev with
  | kill => simp only [handleEv]; split <;> rfl
  | listener newFd => simp only [handleEv]; split <;> rfl
  | client fd fl rd t w =>
    rcases handleEv_client_shape s fd fl rd t w with h | ⟨c, c'', toks, _, _, _, h⟩ <;> rw [h]

end MicroHttp
