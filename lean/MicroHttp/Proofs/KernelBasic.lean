/-
  Proofs.KernelBasic — arithmetic of the work measure (`sumList`, the lexicographic order) and the
  readiness predicate of the kernel model: what `World.ready` says connection by connection.
-/
import MicroHttp.Kernel
import MicroHttp.Props.C08
namespace MicroHttp

/-! ### `sumList` -/

theorem foldl_add_init (l : List Nat) (a : Nat) : l.foldl (· + ·) a = a + l.foldl (· + ·) 0 := by
  induction l generalizing a with
  | nil => simp
  | cons x xs ih =>
    simp only [List.foldl_cons]
    rw [ih (a + x), ih (0 + x)]
    omega

@[simp] theorem sumList_nil : sumList [] = 0 := rfl

@[simp] theorem sumList_cons (x : Nat) (xs : List Nat) : sumList (x :: xs) = x + sumList xs := by
  unfold sumList
  rw [List.foldl_cons, foldl_add_init]
  omega

@[simp] theorem sumList_append (l₁ l₂ : List Nat) : sumList (l₁ ++ l₂) = sumList l₁ + sumList l₂ := by
  induction l₁ with
  | nil => simp
  | cons x xs ih => simp only [List.cons_append, sumList_cons, ih]; omega

theorem sumList_map_le {α : Type} (l : List α) (f g : α → Nat) (h : ∀ x ∈ l, f x ≤ g x) :
    sumList (l.map f) ≤ sumList (l.map g) := by
  induction l with
  | nil => simp
  | cons x xs ih =>
    simp only [List.map_cons, sumList_cons]
    have h1 := h x List.mem_cons_self
    have h2 := ih (fun y hy => h y (List.mem_cons_of_mem _ hy))
    omega

theorem sumList_map_lt {α : Type} (l : List α) (f g : α → Nat) (h : ∀ x ∈ l, f x ≤ g x)
    (hs : ∃ x ∈ l, f x < g x) : sumList (l.map f) < sumList (l.map g) := by
  induction l with
  | nil => obtain ⟨x, hx, _⟩ := hs; cases hx
  | cons x xs ih =>
    simp only [List.map_cons, sumList_cons]
    have h1 := h x List.mem_cons_self
    have hle := sumList_map_le xs f g (fun y hy => h y (List.mem_cons_of_mem _ hy))
    obtain ⟨y, hy, hlt⟩ := hs
    rcases List.mem_cons.mp hy with rfl | hy'
    · omega
    · have := ih (fun y hy => h y (List.mem_cons_of_mem _ hy)) ⟨y, hy', hlt⟩
      omega

theorem sumList_map_congr {α : Type} (l : List α) (f g : α → Nat) (h : ∀ x ∈ l, f x = g x) :
    sumList (l.map f) = sumList (l.map g) := by
  rw [List.map_congr_left h]

/-! ### counting with a filter -/

theorem filter_map_length_le {α : Type} (l : List α) (f : α → α) (p : α → Bool)
    (h : ∀ x ∈ l, p (f x) = true → p x = true) :
    ((l.map f).filter p).length ≤ (l.filter p).length := by
  induction l with
  | nil => simp
  | cons x xs ih =>
    have h1 := h x List.mem_cons_self
    have h2 := ih (fun y hy => h y (List.mem_cons_of_mem _ hy))
    simp only [List.map_cons, List.filter_cons]
    cases hp : p (f x) with
    | false =>
      simp only [Bool.false_eq_true, if_false]
      split
      · simp only [List.length_cons]; omega
      · exact h2
    | true =>
      rw [h1 hp]
      simp only [if_true, List.length_cons]
      omega

theorem filter_map_length_lt {α : Type} (l : List α) (f : α → α) (p : α → Bool)
    (h : ∀ x ∈ l, p (f x) = true → p x = true)
    (hs : ∃ x ∈ l, p x = true ∧ p (f x) = false) :
    ((l.map f).filter p).length < (l.filter p).length := by
  induction l with
  | nil => obtain ⟨x, hx, _⟩ := hs; cases hx
  | cons x xs ih =>
    have h1 := h x List.mem_cons_self
    have hle := filter_map_length_le xs f p (fun y hy => h y (List.mem_cons_of_mem _ hy))
    obtain ⟨y, hy, hy1, hy2⟩ := hs
    simp only [List.map_cons, List.filter_cons]
    rcases List.mem_cons.mp hy with rfl | hy'
    · rw [hy1, hy2]
      simp only [Bool.false_eq_true, if_false, if_true, List.length_cons]
      omega
    · have := ih (fun y hy => h y (List.mem_cons_of_mem _ hy)) ⟨y, hy', hy1, hy2⟩
      cases hp : p (f x) with
      | false =>
        simp only [Bool.false_eq_true, if_false]
        split
        · simp only [List.length_cons]; omega
        · exact this
      | true =>
        rw [h1 hp]
        simp only [if_true, List.length_cons]
        omega

/-! ### the lexicographic order -/

theorem lexLt_wf' : WellFounded lexLt := by
  have hwf := (Prod.lex Nat.lt_wfRel (Prod.lex Nat.lt_wfRel Nat.lt_wfRel)).wf
  refine Subrelation.wf ?_ hwf
  intro a b hab
  obtain ⟨a1, a2, a3⟩ := a
  obtain ⟨b1, b2, b3⟩ := b
  unfold lexLt at hab
  simp only at hab
  rcases hab with h | ⟨rfl, h | ⟨rfl, h⟩⟩
  · exact Prod.Lex.left _ _ h
  · exact Prod.Lex.right _ (Prod.Lex.left _ _ h)
  · exact Prod.Lex.right _ (Prod.Lex.right _ h)

/-! ### readiness -/

theorem ready_false_iff (w : World) :
    w.ready = false ↔
      w.backlog = [] ∧ (w.srv.hasKill && w.killSignalled) = false ∧
      ∀ c ∈ w.srv.conns, connReady c (w.sock c.fd) = false := by
  unfold World.ready
  simp only [Bool.or_eq_false_iff, Bool.not_eq_false', List.isEmpty_iff, List.any_eq_false,
    Bool.not_eq_true, and_assoc]

theorem ready_of_backlog (w : World) (h : w.backlog ≠ []) : w.ready = true := by
  cases hr : w.ready with
  | true => rfl
  | false => exact absurd ((ready_false_iff w).mp hr).1 h

theorem ready_of_conn (w : World) (c : Client) (hc : c ∈ w.srv.conns)
    (h : connReady c (w.sock c.fd) = true) : w.ready = true := by
  cases hr : w.ready with
  | true => rfl
  | false =>
    have := ((ready_false_iff w).mp hr).2.2 c hc
    rw [h] at this; cases this

theorem connReady_inn (c : Client) (k : KSock) (hi : c.interest = .inn) :
    connReady c k = (k.peerGone || !k.unread.isEmpty) := by
  unfold connReady; rw [hi]

theorem connReady_out (c : Client) (k : KSock) (hi : c.interest = .out) :
    connReady c k = (k.peerGone || decide (0 < k.space)) := by
  unfold connReady; rw [hi]

theorem no_spin' (w : World) (hw : w.WellBehaved) (hb : w.backlog = [])
    (hq : ∀ c ∈ w.srv.conns, (w.sock c.fd).unread = [] ∧ c.interest = .inn) :
    w.ready = false := by
  rw [ready_false_iff]
  refine ⟨hb, by rw [hw.1]; simp, ?_⟩
  intro c hc
  obtain ⟨h1, h2⟩ := hq c hc
  rw [connReady_inn c _ h2, (hw.2.1 c hc).1, h1]
  rfl

theorem no_lost_wakeup' (w : World) (h : SrvInv w.srv)
    (hwork : w.backlog ≠ [] ∨
      ∃ c ∈ w.srv.conns,
        ((w.sock c.fd).unread ≠ [] ∧ c.interest = .inn) ∨
        (pendingWrite c.conn = true ∧ 0 < (w.sock c.fd).space)) :
    w.ready = true := by
  rcases hwork with hb | ⟨c, hc, ⟨hu, hi⟩ | ⟨hp, hs⟩⟩
  · exact ready_of_backlog w hb
  · apply ready_of_conn w c hc
    rw [connReady_inn c _ hi]
    cases hu' : (w.sock c.fd).unread with
    | nil => exact absurd hu' hu
    | cons x xs => simp
  · apply ready_of_conn w c hc
    rw [connReady_out c _ ((C08.interest_follows_work w.srv h c hc).1 hp)]
    simp [hs]

theorem silent_means_idle' (w : World) (h : SrvInv w.srv) (hs : w.ready = false)
    (hroom : ∀ c ∈ w.srv.conns, 0 < (w.sock c.fd).space) :
    w.backlog = [] ∧
    ∀ c ∈ w.srv.conns, (w.sock c.fd).unread = [] ∧ pendingWrite c.conn = false ∧ c.interest = .inn := by
  obtain ⟨hb, _, hc⟩ := (ready_false_iff w).mp hs
  refine ⟨hb, ?_⟩
  intro c hcm
  have hnr := hc c hcm
  cases hi : c.interest with
  | out =>
    rw [connReady_out c _ hi] at hnr
    have := hroom c hcm
    simp [this] at hnr
  | inn =>
    rw [connReady_inn c _ hi] at hnr
    simp only [Bool.or_eq_false_iff, Bool.not_eq_false', List.isEmpty_iff] at hnr
    exact ⟨hnr.2, (C08.interest_follows_work w.srv h c hcm).2 hi, rfl⟩

end MicroHttp
