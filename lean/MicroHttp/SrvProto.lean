/-
  MicroHttp.SrvProto — line-protocol front end of the server model (driver side only).
-/
import MicroHttp.Server
import MicroHttp.Kernel
import MicroHttp.Show
namespace MicroHttp

def hexVal' (c : Char) : Option Nat :=
  if '0' ≤ c ∧ c ≤ '9' then some (c.toNat - 48)
  else if 'a' ≤ c ∧ c ≤ 'f' then some (c.toNat - 87)
  else none

def unhexGo' : List Char → List Byte → Option (List Byte)
  | [], acc => some acc.reverse
  | [_], _ => none
  | a :: b :: rest, acc =>
    match hexVal' a, hexVal' b with
    | some x, some y => unhexGo' rest ((x * 16 + y).toUInt8 :: acc)
    | _, _ => none

def unhex' (s : String) : Option (List Byte) :=
  if s == "." then some [] else unhexGo' s.toList []

def parseFlags (s : String) : EvFlags :=
  { inn := s.contains 'i', out := s.contains 'o', hup := s.contains 'h' }

def parseRd (s : String) : Option (Recv × List Byte) :=
  if s == "-" then some (.err 11, [])
  else if s.startsWith "d" then (unhex' (s.drop 1).toString).map (fun b => (.data b [], []))
  else if s.startsWith "e" then
    match ((s.drop 1).toString).splitOn "," with
    | [n, t] =>
      match n.toNat?, unhex' t with
      | some n, some t => some (.err n, t)
      | _, _ => none
    | _ => none
  else none

def parseWr (s : String) : Option SinkStep :=
  if s == "-" then some .fail
  else if s == "z" then some .zero
  else if s == "i" then some .interrupted
  else if s == "f" then some .fail
  else if s.startsWith "a" then ((s.drop 1).toString).toNat?.map .accept
  else none

/-- `K` | `L<fd>` | `C<fd>:<flags>:<rd>:<wr>` -/
def parseEv (s : String) : Option Ev :=
  if s == "K" then some .kill
  else if s.startsWith "L" then ((s.drop 1).toString).toNat?.map .listener
  else if s.startsWith "C" then
    match ((s.drop 1).toString).splitOn ":" with
    | [fd, fl, rd, wr] =>
      match fd.toNat?, parseRd rd, parseWr wr with
      | some fd, some (r, t), some w => some (.client fd (parseFlags fl) r t w)
      | _, _, _ => none
    | _ => none
  else none

def insertNat (x : Nat × String) : List (Nat × String) → List (Nat × String)
  | [] => [x]
  | y :: ys => if x.1 < y.1 then x :: y :: ys else y :: insertNat x ys

def sortByFd (l : List (Nat × String)) : List (Nat × String) := l.foldl (fun acc x => insertNat x acc) []

def showInterest (s : Srv) : String :=
  let l := sortByFd (s.conns.map fun c => (c.fd, match c.interest with | .inn => "I" | .out => "O"))
  "int=[" ++ ",".intercalate (l.map fun x => s!"{x.1}:{x.2}") ++ "]"

/-- bytes written per descriptor, merged, sorted by fd -/
def showWrites (effs : List Effect) : String :=
  let ws := effs.filterMap fun e => match e with | .wrote fd _ b => some (fd, b) | _ => none
  let fds := (ws.map (·.1)).eraseDups
  let merged := fds.map fun fd => (fd, hx ((ws.filter (·.1 = fd)).flatMap (·.2)))
  "w=[" ++ ",".intercalate ((sortByFd merged).map fun x => s!"{x.1}:{x.2}") ++ "]"

def showFdList (tag : String) (l : List Nat) : String :=
  tag ++ "=[" ++ ",".intercalate ((sortByFd (l.map fun x => (x, ""))).map fun x => toString x.1) ++ "]"

def Abort.show : Abort → String
  | .shutdown => "shutdown"
  | .unknownFd fd => s!"PANIC(unknown-fd {fd})"
  | .connPanic p => s!"PANIC({p.show})"

/-- driver-side kernel stand-in for `flush`: the socket accepts `budget` more bytes, then the write fails
    (EAGAIN is a failure for `try_write`); a dead peer fails at once -/
def budgetScript : Nat → Client → Nat → Bool → List SinkStep
  | 0, _, _, _ => []
  | fuel + 1, c, budget, dead =>
    if c.state ≠ .awaitingOut then []
    else
      let step : SinkStep := if dead || budget = 0 then .fail else .accept budget
      let (c', bytes) := c.write step
      step :: budgetScript fuel c' (budget - bytes.length) dead

def srvStep (s : Srv) (args : List String) : Srv × String :=
  match args with
  | ["new"] => (Srv.new, "ok")
  | ["limit", n] =>
    match n.toNat? with
    | some n => ({ s with limit := n }, "ok")
    | none => (s, "bad-op")
  | ["killadd"] => ({ s with hasKill := true }, "ok")
  | "poll" :: evs =>
    match evs.mapM parseEv with
    | none => (s, "bad-op")
    | some evs =>
      let (s', res, effs) := requests s evs
      let dropped := effs.filterMap fun e => match e with | .dropped fd _ => some fd | _ => none
      let refused := effs.filterMap fun e => match e with | .refused fd => some fd | _ => none
      let tail := s!"{showWrites effs} {showInterest s'} {showFdList "dropped" dropped} refused={refused.length}"
      match res with
      | .ok reqs =>
        (s', "ok reqs=[" ++ "|".intercalate (reqs.map fun x => s!"{x.1.fd}:{Request.show x.2}") ++ "] " ++ tail)
      | .aborted a => (s', a.show ++ " " ++ tail)
  | ["respond", fd, v, code, ops] =>
    let v? := match v with | "1.0" => some Version.http10 | "1.1" => some Version.http11 | _ => none
    let c? := match code.toNat? with | some n => StatusCode.all.find? (fun (c : StatusCode) => c.num = n) | none => none
    match fd.toNat?, v?, c? with
    | some fd, some v, some c =>
      -- builder ops used by the server suites: `b:<hex>`, `d`, `s:<hex>`, `t:plain|json` joined by `;`, or `-`
      let ops? : Option (List BuildOp) :=
        if ops == "-" then some []
        else (ops.splitOn ";").mapM fun (o : String) =>
          if o.startsWith "b:" then (unhex' (o.drop 2).toString).map BuildOp.setBody
          else if o == "d" then some .setDeprecation
          else if o.startsWith "s:" then (unhex' (o.drop 2).toString).map BuildOp.setServer
          else if o == "t:plain" then some (.setContentType .plainText)
          else if o == "t:json" then some (.setContentType .applicationJson)
          else none
      match ops? with
      | none => (s, "bad-op")
      | some ops =>
        let inst := match findClient s.conns fd with | some c => c.inst | none => 0
        let (s', r, _) := respond s ⟨fd, inst⟩ (Response.build v c ops)
        (s', (match r with | .ok => "ok" | .underflow => "underflow") ++ " " ++ showInterest s')
    | _, _, _ => (s, "bad-op")
  | "kern" :: entries =>
    -- `<fd>:<unread bytes>:<peer gone 0/1>:<writable 0/1>`: the kernel model (Kernel.lean, E7) predicts which
    -- connection descriptors epoll reports, from the model's interest map
    let parsed := entries.mapM fun (t : String) =>
      match t.splitOn ":" with
      | [fd, n, g, w] =>
        match fd.toNat?, n.toNat?, g.toNat?, w.toNat? with
        | some fd, some n, some g, some w =>
          some (fd, ({ unread := List.replicate n 0, peerGone := g != 0, space := w } : KSock))
        | _, _, _, _ => none
      | _ => none
    match parsed with
    | none => (s, "bad-op")
    | some table =>
      let ready := s.conns.filter fun c =>
        match table.find? (·.1 = c.fd) with
        | some x => connReady c x.2
        | none => false
      (s, showFdList "ready" (ready.map (·.fd)))
  | "respondmany" :: items =>
    -- `<fd>,<v>,<code>,<bodyhex>` each: `enqueue_responses`
    let parsed := items.mapM fun (t : String) =>
      match t.splitOn "," with
      | [fd, v, code, b] =>
        let v? := match v with | "1.0" => some Version.http10 | "1.1" => some Version.http11 | _ => none
        let c? := match code.toNat? with | some n => StatusCode.all.find? (fun (c : StatusCode) => c.num = n) | none => none
        match fd.toNat?, v?, c?, unhex' b with
        | some fd, some v, some c, some b =>
          let inst := match findClient s.conns fd with | some c => c.inst | none => 0
          some ((⟨fd, inst⟩ : Token), Response.build v c [.setBody b])
        | _, _, _, _ => none
      | _ => none
    match parsed with
    | none => (s, "bad-op")
    | some l =>
      let (s', r) := respondMany s l
      (s', (match r with | .ok => "ok" | .underflow => "underflow") ++ " " ++ showInterest s')
  | "flushb" :: budgets =>
    -- `<fd>:<budget>[x]`
    let parsed := budgets.mapM fun (t : String) =>
      match t.splitOn ":" with
      | [fd, b] =>
        let dead := b.endsWith "x"
        let b' := if dead then (b.dropEnd 1).toString else b
        match fd.toNat?, b'.toNat? with
        | some fd, some n => some (fd, n, dead)
        | _, _ => none
      | _ => none
    match parsed with
    | none => (s, "bad-op")
    | some table =>
      let script (fd : Nat) : List SinkStep :=
        match table.find? (·.1 = fd), findClient s.conns fd with
        | some x, some c => budgetScript 4096 c x.2.1 x.2.2
        | _, _ => []
      let (s', effs) := flush s script
      (s', s!"ok {showWrites effs} {showInterest s'}")
  | "flush" :: scripts =>
    -- `<fd>:<w>,<w>,...`
    let parsed := scripts.mapM fun t =>
      match t.splitOn ":" with
      | [fd, ws] =>
        match fd.toNat?, (ws.splitOn ",").mapM parseWr with
        | some fd, some ws => some (fd, ws)
        | _, _ => none
      | _ => none
    match parsed with
    | none => (s, "bad-op")
    | some table =>
      let script (fd : Nat) : List SinkStep :=
        match table.find? (·.1 = fd) with
        | some x => x.2
        | none => []
      let (s', effs) := flush s script
      (s', s!"ok {showWrites effs} {showInterest s'}")
  | _ => (s, "bad-op")

end MicroHttp
