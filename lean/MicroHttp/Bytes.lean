/-
  MicroHttp.Bytes — byte-level helpers that model the pieces of Rust `std` the crate leans on:
  slice search (`request.rs::find`), checked slicing, UTF-8 validation (`core::str::from_utf8`
  including `Utf8Error::{valid_up_to, error_len}`), `String::from_utf8_lossy`, `str::trim`,
  `make_ascii_lowercase`, `str::parse::<u32>`, decimal `Display`, `splitn(2, ':')`, `split(',')`,
  `split("\r\n")`, `str::contains`.
  Strings are UTF-8 byte lists.  No Mathlib; core only (this file is linked into the driver).
-/
namespace MicroHttp

abbrev Byte := UInt8

def CR : Byte := 13
def LF : Byte := 10
def SP : Byte := 32
def COLON : Byte := 58
def COMMA : Byte := 44
def SLASH : Byte := 47
def CRLF : List Byte := [CR, LF]

/-- ASCII string literal as bytes. -/
def str (s : String) : List Byte := s.toUTF8.toList

/-- `request.rs::find(bytes, sequence)`: first window position equal to `seq` (for non-empty `seq`). -/
def find (seq : List Byte) : List Byte → Option Nat
  | [] => none
  | b :: bs => if seq.isPrefixOf (b :: bs) then some 0 else (find seq bs).map (· + 1)

/-- Why a model step stopped abnormally with a Rust panic (index out of bounds, unwrap on None, …). -/
inductive Panic
  | slice | unwrap | drain | sub | fuel
  deriving DecidableEq, Repr

/-! ### UTF-8 validation, exactly as `core::str::from_utf8` reports it -/

/-- `Utf8Error`: `valid_up_to` and `error_len` (`none` = unexpected end of input). -/
structure Utf8Error where
  validUpTo : Nat
  errorLen : Option Nat
  deriving DecidableEq, Repr

def isCont (b : Byte) : Bool := 0x80 ≤ b && b ≤ 0xBF

/-- Validate starting at offset `off` (used for the error position). Structural on the list via fuel = length. -/
def utf8Go : Nat → Nat → List Byte → Except Utf8Error Unit
  | _, _, [] => .ok ()
  | 0, off, _ :: _ => .error ⟨off, some 1⟩   -- unreachable: fuel = length
  | fuel + 1, off, b :: rest =>
    if b < 0x80 then utf8Go fuel (off + 1) rest
    else if 0xC2 ≤ b && b ≤ 0xDF then
      match rest with
      | [] => .error ⟨off, none⟩
      | b1 :: r1 => if isCont b1 then utf8Go fuel (off + 2) r1 else .error ⟨off, some 1⟩
    else if 0xE0 ≤ b && b ≤ 0xEF then
      match rest with
      | [] => .error ⟨off, none⟩
      | b1 :: r1 =>
        let ok1 := (b == 0xE0 && 0xA0 ≤ b1 && b1 ≤ 0xBF) ||
                   (0xE1 ≤ b && b ≤ 0xEC && isCont b1) ||
                   (b == 0xED && 0x80 ≤ b1 && b1 ≤ 0x9F) ||
                   (0xEE ≤ b && b ≤ 0xEF && isCont b1)
        if !ok1 then .error ⟨off, some 1⟩
        else match r1 with
          | [] => .error ⟨off, none⟩
          | b2 :: r2 => if isCont b2 then utf8Go fuel (off + 3) r2 else .error ⟨off, some 2⟩
    else if 0xF0 ≤ b && b ≤ 0xF4 then
      match rest with
      | [] => .error ⟨off, none⟩
      | b1 :: r1 =>
        let ok1 := (b == 0xF0 && 0x90 ≤ b1 && b1 ≤ 0xBF) ||
                   (0xF1 ≤ b && b ≤ 0xF3 && isCont b1) ||
                   (b == 0xF4 && 0x80 ≤ b1 && b1 ≤ 0x8F)
        if !ok1 then .error ⟨off, some 1⟩
        else match r1 with
          | [] => .error ⟨off, none⟩
          | b2 :: r2 =>
            if !isCont b2 then .error ⟨off, some 2⟩
            else match r2 with
              | [] => .error ⟨off, none⟩
              | b3 :: r3 => if isCont b3 then utf8Go fuel (off + 4) r3 else .error ⟨off, some 3⟩
    else .error ⟨off, some 1⟩

/-- `core::str::from_utf8(bytes)` : `Ok(())` or the `Utf8Error`. -/
def utf8Check (bs : List Byte) : Except Utf8Error Unit := utf8Go bs.length 0 bs

def isUtf8 (bs : List Byte) : Bool :=
  match utf8Check bs with
  | .ok _ => true
  | .error _ => false

/-- U+FFFD in UTF-8. -/
def REPLACEMENT : List Byte := [0xEF, 0xBF, 0xBD]

/-- `String::from_utf8_lossy`: each maximal invalid subpart becomes one U+FFFD. -/
def utf8Lossy : Nat → List Byte → List Byte
  | 0, _ => []
  | fuel + 1, bs =>
    match utf8Check bs with
    | .ok _ => bs
    | .error e =>
      match e.errorLen with
      | none => bs.take e.validUpTo ++ REPLACEMENT
      | some n => bs.take e.validUpTo ++ REPLACEMENT ++ utf8Lossy fuel (bs.drop (e.validUpTo + n))

def fromUtf8Lossy (bs : List Byte) : List Byte := utf8Lossy (bs.length + 1) bs

/-! ### `str::trim` (Unicode `White_Space`), on UTF-8 bytes -/

/-- UTF-8 encodings of all `White_Space` code points. -/
def wsPatterns : List (List Byte) :=
  [[0x09], [0x0A], [0x0B], [0x0C], [0x0D], [0x20],
   [0xC2, 0x85], [0xC2, 0xA0],
   [0xE1, 0x9A, 0x80],
   [0xE2, 0x80, 0x80], [0xE2, 0x80, 0x81], [0xE2, 0x80, 0x82], [0xE2, 0x80, 0x83],
   [0xE2, 0x80, 0x84], [0xE2, 0x80, 0x85], [0xE2, 0x80, 0x86], [0xE2, 0x80, 0x87],
   [0xE2, 0x80, 0x88], [0xE2, 0x80, 0x89], [0xE2, 0x80, 0x8A],
   [0xE2, 0x80, 0xA8], [0xE2, 0x80, 0xA9], [0xE2, 0x80, 0xAF],
   [0xE2, 0x81, 0x9F],
   [0xE3, 0x80, 0x80]]

/-- Length of the whitespace character at the front of `bs`, if any. -/
def wsPrefixLen (bs : List Byte) : Option Nat :=
  (wsPatterns.find? (fun p => p.isPrefixOf bs)).map List.length

def trimStartGo : Nat → List Byte → List Byte
  | 0, bs => bs
  | fuel + 1, bs =>
    match wsPrefixLen bs with
    | some n => trimStartGo fuel (bs.drop n)
    | none => bs

def trimStart (bs : List Byte) : List Byte := trimStartGo bs.length bs

/-- Length of the whitespace character at the end of `bs` (given reversed), if any. -/
def wsSuffixLenRev (rev : List Byte) : Option Nat :=
  (wsPatterns.find? (fun p => p.reverse.isPrefixOf rev)).map List.length

def trimEndGo : Nat → List Byte → List Byte
  | 0, rev => rev
  | fuel + 1, rev =>
    match wsSuffixLenRev rev with
    | some n => trimEndGo fuel (rev.drop n)
    | none => rev

def trimEnd (bs : List Byte) : List Byte := (trimEndGo bs.length bs.reverse).reverse

/-- `str::trim` on a valid UTF-8 byte string. -/
def trim (bs : List Byte) : List Byte := trimEnd (trimStart bs)

/-- `make_ascii_lowercase`. -/
def asciiLowerByte (b : Byte) : Byte := if 0x41 ≤ b && b ≤ 0x5A then b + 0x20 else b
def asciiLower (bs : List Byte) : List Byte := bs.map asciiLowerByte

/-! ### numbers -/

def isDigit (b : Byte) : Bool := 0x30 ≤ b && b ≤ 0x39

def digitsVal : Nat → List Byte → Option Nat
  | acc, [] => some acc
  | acc, b :: bs => if isDigit b then digitsVal (acc * 10 + (b.toNat - 0x30)) bs else none

/-- `str::parse::<u32>()`: optional `+`, at least one ASCII digit, value ≤ 2³²−1. -/
def parseU32 (bs : List Byte) : Option Nat :=
  let ds := match bs with
    | 0x2B :: rest => rest
    | _ => bs
  if ds.isEmpty then none
  else match digitsVal 0 ds with
    | some v => if v < 4294967296 then some v else none
    | none => none

def natDigits : Nat → Nat → List Byte → List Byte
  | 0, _, acc => acc
  | fuel + 1, n, acc =>
    let acc' := (0x30 + (n % 10).toUInt8) :: acc
    if n / 10 = 0 then acc' else natDigits fuel (n / 10) acc'

/-- `Display` of an unsigned integer. -/
def decimal (n : Nat) : List Byte := natDigits (n + 1) n []

/-- `Display` of a signed integer. -/
def decimalInt (i : Int) : List Byte :=
  if i < 0 then 0x2D :: decimal i.natAbs else decimal i.natAbs

/-- `len as i32` for a `usize` length (two's-complement truncation to 32 bits). -/
def asI32 (n : Nat) : Int :=
  let m := n % 4294967296
  if m < 2147483648 then (m : Int) else (m : Int) - 4294967296

/-! ### splitting -/

/-- `s.splitn(2, ':')`: `(before, some after)` at the first `sep`, or `(s, none)`. -/
def splitOnce (sep : Byte) : List Byte → List Byte × Option (List Byte)
  | [] => ([], none)
  | b :: bs =>
    if b == sep then ([], some bs)
    else
      let (h, t) := splitOnce sep bs
      (b :: h, t)

/-- `s.split(',')` : always at least one piece. -/
def splitOn (sep : Byte) : List Byte → List (List Byte)
  | [] => [[]]
  | b :: bs =>
    if b == sep then [] :: splitOn sep bs
    else
      match splitOn sep bs with
      | [] => [[b]]           -- unreachable
      | p :: ps => (b :: p) :: ps

/-- `s.split("\r\n")`. -/
def splitCRLF : List Byte → List (List Byte)
  | [] => [[]]
  | [b] => [[b]]
  | a :: b :: rest =>
    if a == CR && b == LF then [] :: splitCRLF rest
    else
      match splitCRLF (b :: rest) with
      | [] => [[a]]           -- unreachable
      | p :: ps => (a :: p) :: ps

/-- `haystack.contains(needle)`. -/
def containsSub (needle : List Byte) : List Byte → Bool
  | [] => needle.isEmpty
  | b :: bs => needle.isPrefixOf (b :: bs) || containsSub needle bs

def hexDigit (n : Nat) : Char :=
  if n < 10 then Char.ofNat (48 + n) else Char.ofNat (87 + n)

def toHex (bs : List Byte) : String :=
  String.ofList (bs.flatMap fun b => [hexDigit (b.toNat / 16), hexDigit (b.toNat % 16)])

end MicroHttp
