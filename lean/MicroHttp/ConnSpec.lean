/-
  MicroHttp.ConnSpec — the vocabulary the connection theorems are stated in:
  the abstraction map from a connection to the spec automaton's state, the connection invariant,
  how received descriptors are attached to completed requests, and read schedules over a byte stream.
  Definitions only (no proofs), so that the statements in Props/ can be read on their own.
-/
import MicroHttp.Spec.Automaton
namespace MicroHttp
variable {RL H : Type}

/-- Assumptions on the line parsers: a non-empty buffer and a request-line parser that cannot panic
    (for `P0` both are theorems: `P0_wf`). -/
structure Params.WF (P : Params RL H) : Prop where
  bpos : 0 < P.B
  rlNoPanic : ∀ l p, P.parseRL l ≠ .error (.panic p)

/-- the automaton phase a connection is in -/
def phaseOf (c : Conn RL H) : Phase RL H :=
  match c.state, c.pending with
  | .headers, some r => .hdrs r
  | .body, some r => .body r c.bodyVec c.toRead
  | _, _ => .line

/-- abstraction map: connection ↦ automaton state (phase + the unconsumed, incomplete line) -/
def absOf (c : Conn RL H) : Abs RL H := ⟨phaseOf c, c.win⟩

/-- The descriptors on hand go to the first request a read completes; later ones get none. -/
def attach (fs : List Nat) : List (Req RL H) → List (Req RL H)
  | [] => []
  | r :: rs => { r with files := fs } :: rs.map (fun r => { r with files := [] })

/-- The connection invariant (C03): what holds between any two public calls. -/
structure Inv (P : Params RL H) (c : Conn RL H) : Prop where
  notReady : c.state ≠ .ready
  winShort : c.win.length < P.B
  winNoCRLF : find CRLF c.win = none
  hdr : c.state = .headers → ∃ r, c.pending = some r
  bod : c.state = .body → ∃ r, c.pending = some r ∧
          c.bodyVec.length + c.toRead = P.clen r.headers ∧ 0 < c.toRead ∧ c.win = []
  nb : c.state ≠ .body → c.bodyVec = []
  rbuf : c.respBuf ≠ some []

/-- the parser part of a connection is in its initial state -/
def ParserFresh (c : Conn RL H) : Prop :=
  c.state = .reqLine ∧ c.pending = none ∧ c.win = [] ∧ c.bodyVec = [] ∧ c.toRead = 0 ∧ c.files = []

/-- One step of a read schedule: the stream has `k ≥ 1` more bytes ready (`take k`; the connection
    reads at most its free buffer space), or the read fails with `errno` (EAGAIN, EINTR, …). -/
inductive Step
  | take (k : Nat)
  | fail (errno : Nat)
  deriving DecidableEq, Repr

/-- EAGAIN -/
def EAGAIN : Nat := 11

/-- Run a read schedule against the bytes a client sent. Stops at the first parse error.
    Result: the connection, the bytes not yet read, and the parse error if one was reported. -/
def runSched (P : Params RL H) : Conn RL H → List Byte → List Step → Conn RL H × List Byte × Option ReqErr
  | c, rest, [] => (c, rest, none)
  | c, rest, .fail e :: ss => runSched P (tryRead P c (.err e)).1 rest ss
  | c, rest, .take k :: ss =>
    if rest.isEmpty then runSched P (tryRead P c (.err EAGAIN)).1 rest ss
    else
      let chunk := rest.take (max k 1)
      let n := takes P c chunk
      match tryRead P c (.data chunk []) with
      | (c', .parseErr e) => (c', rest.drop n, some e)
      | (c', _) => runSched P c' (rest.drop n) ss

/-- the bytes of `stream` that a run has consumed when `rest` is left -/
def consumed (stream rest : List Byte) : List Byte := stream.take (stream.length - rest.length)

end MicroHttp
