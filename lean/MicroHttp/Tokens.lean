/-
  MicroHttp.Tokens — `Method`, `Version` (common/mod.rs), `MediaType` (common/headers.rs),
  `StatusCode` (response.rs) and `Uri::get_abs_path` (request.rs).
-/
import MicroHttp.Bytes
namespace MicroHttp

inductive Method | get | put | patch
  deriving DecidableEq, Repr, Inhabited

def Method.raw : Method → List Byte
  | .get => [0x47, 0x45, 0x54]                  -- "GET"
  | .put => [0x50, 0x55, 0x54]                  -- "PUT"
  | .patch => [0x50, 0x41, 0x54, 0x43, 0x48]    -- "PATCH"

/-- `Method::try_from`: exact byte match. -/
def Method.tryFrom (bs : List Byte) : Option Method :=
  if bs = Method.get.raw then some .get
  else if bs = Method.put.raw then some .put
  else if bs = Method.patch.raw then some .patch
  else none

def Method.all : List Method := [.get, .put, .patch]

inductive Version | http10 | http11
  deriving DecidableEq, Repr, Inhabited

def Version.raw : Version → List Byte
  | .http10 => [0x48, 0x54, 0x54, 0x50, 0x2F, 0x31, 0x2E, 0x30]   -- "HTTP/1.0"
  | .http11 => [0x48, 0x54, 0x54, 0x50, 0x2F, 0x31, 0x2E, 0x31]   -- "HTTP/1.1"

def Version.tryFrom (bs : List Byte) : Option Version :=
  if bs = Version.http10.raw then some .http10
  else if bs = Version.http11.raw then some .http11
  else none

def Version.all : List Version := [.http10, .http11]

inductive MediaType | plainText | applicationJson
  deriving DecidableEq, Repr, Inhabited

def MediaType.raw : MediaType → List Byte
  | .plainText => [0x74, 0x65, 0x78, 0x74, 0x2F, 0x70, 0x6C, 0x61, 0x69, 0x6E]                -- "text/plain"
  | .applicationJson =>
    [0x61, 0x70, 0x70, 0x6C, 0x69, 0x63, 0x61, 0x74, 0x69, 0x6F, 0x6E, 0x2F, 0x6A, 0x73, 0x6F, 0x6E] -- "application/json"

def MediaType.all : List MediaType := [.plainText, .applicationJson]

/-- `MediaType::try_from`: empty → error; not UTF-8 → error; `trim` then exact match. -/
def MediaType.tryFrom (bs : List Byte) : Option MediaType :=
  if bs.isEmpty then none
  else if !isUtf8 bs then none
  else
    let t := trim bs
    if t = MediaType.plainText.raw then some .plainText
    else if t = MediaType.applicationJson.raw then some .applicationJson
    else none

inductive StatusCode
  | continue_ | ok | noContent | badRequest | unauthorized | notFound | methodNotAllowed
  | payloadTooLarge | internalServerError | notImplemented | serviceUnavailable
  deriving DecidableEq, Repr, Inhabited

def StatusCode.all : List StatusCode :=
  [.continue_, .ok, .noContent, .badRequest, .unauthorized, .notFound, .methodNotAllowed,
   .payloadTooLarge, .internalServerError, .notImplemented, .serviceUnavailable]

def StatusCode.num : StatusCode → Nat
  | .continue_ => 100 | .ok => 200 | .noContent => 204 | .badRequest => 400 | .unauthorized => 401
  | .notFound => 404 | .methodNotAllowed => 405 | .payloadTooLarge => 413
  | .internalServerError => 500 | .notImplemented => 501 | .serviceUnavailable => 503

/-- `StatusCode::raw`: the three ASCII digits. -/
def StatusCode.raw : StatusCode → List Byte
  | .continue_ => [0x31, 0x30, 0x30]
  | .ok => [0x32, 0x30, 0x30]
  | .noContent => [0x32, 0x30, 0x34]
  | .badRequest => [0x34, 0x30, 0x30]
  | .unauthorized => [0x34, 0x30, 0x31]
  | .notFound => [0x34, 0x30, 0x34]
  | .methodNotAllowed => [0x34, 0x30, 0x35]
  | .payloadTooLarge => [0x34, 0x31, 0x33]
  | .internalServerError => [0x35, 0x30, 0x30]
  | .notImplemented => [0x35, 0x30, 0x31]
  | .serviceUnavailable => [0x35, 0x30, 0x33]

/-- "http://" -/
def HTTP_SCHEME_PREFIX : List Byte := [0x68, 0x74, 0x74, 0x70, 0x3A, 0x2F, 0x2F]

/-- suffix of `bs` starting at the first `/` (inclusive), or `[]` if there is none. -/
def fromFirstSlash : List Byte → List Byte
  | [] => []
  | b :: bs => if b == SLASH then b :: bs else fromFirstSlash bs

/-- `Uri::get_abs_path` on the URI's bytes (valid UTF-8 by construction of `Uri`). -/
def getAbsPath (uri : List Byte) : List Byte :=
  if HTTP_SCHEME_PREFIX.isPrefixOf uri then
    let withoutScheme := uri.drop HTTP_SCHEME_PREFIX.length
    if withoutScheme.isEmpty then [] else fromFirstSlash withoutScheme
  else if [SLASH].isPrefixOf uri then uri
  else []

end MicroHttp
