/-
  MicroHttp.Spec.RespReader — an independent reader of a keep-alive response stream
  (written from RFC framing rules, not from the serializer): status line, header lines up to the
  blank line, then exactly `Content-Length` body bytes if that header is present, none otherwise.
  C05 is stated against it: it must recover every response from any concatenation.
-/
import MicroHttp.Response
namespace MicroHttp

structure RespView where
  version : List Byte
  code : List Byte
  headers : List (List Byte)
  body : List Byte
  deriving DecidableEq, Repr

/-- first line (without CRLF) and the rest after its CRLF -/
def takeLine : List Byte → Option (List Byte × List Byte)
  | [] => none
  | [_] => none
  | a :: b :: rest =>
    if a = CR ∧ b = LF then some ([], rest)
    else match takeLine (b :: rest) with
      | none => none
      | some (l, r) => some (a :: l, r)

/-- header lines up to the blank line -/
def takeHeaders : Nat → List Byte → Option (List (List Byte) × List Byte)
  | 0, _ => none
  | fuel + 1, bs =>
    match takeLine bs with
    | none => none
    | some ([], rest) => some ([], rest)
    | some (l, rest) =>
      match takeHeaders fuel rest with
      | none => none
      | some (ls, r) => some (l :: ls, r)

/-- "Content-Length: " -/
def CL_PREFIX : List Byte :=
  [0x43, 0x6F, 0x6E, 0x74, 0x65, 0x6E, 0x74, 0x2D, 0x4C, 0x65, 0x6E, 0x67, 0x74, 0x68, 0x3A, 0x20]

def contentLengthOf : List (List Byte) → Option Nat
  | [] => none
  | l :: ls =>
    if CL_PREFIX.isPrefixOf l then digitsVal 0 (l.drop CL_PREFIX.length)
    else contentLengthOf ls

/-- status line `VERSION SP CODE SP` : split at the first SP; the code is what is between it and the final SP -/
def splitStatus (line : List Byte) : Option (List Byte × List Byte) :=
  match splitOnce SP line with
  | (v, some rest) =>
    match rest.reverse with
    | sp :: codeRev => if sp = SP then some (v, codeRev.reverse) else none
    | [] => none
  | (_, none) => none

def readOne (bs : List Byte) : Option (RespView × List Byte) :=
  match takeLine bs with
  | none => none
  | some (status, rest) =>
    match splitStatus status with
    | none => none
    | some (v, code) =>
      match takeHeaders (rest.length + 1) rest with
      | none => none
      | some (hdrs, rest') =>
        match contentLengthOf hdrs with
        | none => some (⟨v, code, hdrs, []⟩, rest')
        | some n =>
          if n ≤ rest'.length then some (⟨v, code, hdrs, rest'.take n⟩, rest'.drop n) else none

/-- read responses until the input is exhausted or unreadable; returns what was read and the unread rest -/
def readAll : Nat → List Byte → List RespView × List Byte
  | 0, bs => ([], bs)
  | fuel + 1, bs =>
    if bs.isEmpty then ([], [])
    else match readOne bs with
      | none => ([], bs)
      | some (v, rest) =>
        let (vs, r) := readAll fuel rest
        (v :: vs, r)

end MicroHttp
