/-
  MicroHttp.Spec.Automaton — the reference semantics of a connection's input side:
  a byte-at-a-time automaton.  It has no buffer, no cursors and no notion of "read":
  its outputs depend on the byte stream only, so segmentation independence is `feed_append`.
  It is the specification C01/C02/C04/C13 are stated against.
-/
import MicroHttp.Conn
namespace MicroHttp
variable {RL H : Type}

inductive Phase (RL H : Type)
  | line                                              -- waiting for a request line
  | hdrs (r : Req RL H)                               -- request line seen, reading header lines
  | body (r : Req RL H) (got : List Byte) (need : Nat)  -- reading `need` more body bytes

structure Abs (RL H : Type) where
  phase : Phase RL H
  /-- bytes of the current, still incomplete line -/
  acc : List Byte

inductive Out (RL H : Type)
  | deliver (r : Req RL H)
  | cont (resp : Response)

def endsCRLF (l : List Byte) : Bool :=
  match l.reverse with
  | b :: a :: _ => a == CR && b == LF
  | _ => false

/-- A complete line `l` (without its CRLF) has been received in phase `ph`. -/
def processLine (P : Params RL H) (L : Nat) :
    Phase RL H → List Byte → Except ReqErr (Abs RL H × List (Out RL H))
  | .line, l =>
    match P.parseRL l with
    | .error (.parse e) => .error e
    | .error (.panic _) => .error .invalidRequest     -- excluded by `Params.NoPanic`
    | .ok rl => .ok (⟨.hdrs ⟨rl, P.h0, none, []⟩, []⟩, [])
  | .hdrs r, [] =>
    if P.clen r.headers = 0 then .ok (⟨.line, []⟩, [.deliver r])
    else if P.clen r.headers > L then .error (.sizeLimitExceeded L (P.clen r.headers))
    else .ok (⟨.body { r with body := some [] } [] (P.clen r.headers), []⟩,
              if P.expect r.headers then [.cont (P.contOf r.line)] else [])
  | .hdrs r, l@(_ :: _) =>
    match P.parseHL r.headers l with
    | .error e => .error e
    | .ok h' => .ok (⟨.hdrs { r with headers := h' }, []⟩, [])
  | .body r g n, _ => .ok (⟨.body r g n, []⟩, [])   -- not used: `feedByte` never calls it in `body`

/-- the error for a line that reaches `B` bytes without its CRLF -/
def tooLong (P : Params RL H) : Phase RL H → List Byte → ReqErr
  | .line, _ => .invalidRequest
  | _, acc => P.hdrTooLong acc

/-- One byte. -/
def feedByte (P : Params RL H) (L : Nat) (a : Abs RL H) (b : Byte) :
    Except ReqErr (Abs RL H × List (Out RL H)) :=
  match a.phase with
  | .body r got need =>
    if need ≤ 1 then .ok (⟨.line, []⟩, [.deliver { r with body := some (got ++ [b]) }])
    else .ok (⟨.body r (got ++ [b]) (need - 1), []⟩, [])
  | ph =>
    let acc' := a.acc ++ [b]
    if endsCRLF acc' then processLine P L ph (acc'.take (acc'.length - 2))
    else if acc'.length = P.B then .error (tooLong P ph acc')
    else .ok (⟨ph, acc'⟩, [])

/-- Feed bytes; stop at the first error (the rest of the input is not looked at). -/
def feed (P : Params RL H) (L : Nat) : Abs RL H → List Byte → List (Out RL H) × Except ReqErr (Abs RL H)
  | a, [] => ([], .ok a)
  | a, b :: bs =>
    match feedByte P L a b with
    | .error e => ([], .error e)
    | .ok (a', o) =>
      let (os, r) := feed P L a' bs
      (o ++ os, r)

def Abs.fresh : Abs RL H := ⟨.line, []⟩

def delivers : List (Out RL H) → List (Req RL H)
  | [] => []
  | .deliver r :: os => r :: delivers os
  | .cont _ :: os => delivers os

def conts : List (Out RL H) → List Response
  | [] => []
  | .deliver _ :: os => conts os
  | .cont v :: os => v :: conts os

end MicroHttp
