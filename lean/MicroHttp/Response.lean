/-
  MicroHttp.Response — `Response`, `ResponseHeaders`, `StatusLine` of response.rs:
  the builder calls and `write_all`, as the list of pieces handed to `Write::write_all`
  and the `std::io::Write::write_all` loop over an arbitrary sink.
-/
import MicroHttp.Tokens
namespace MicroHttp

structure Response where
  version : Version
  status : StatusCode
  contentLength : Option Int
  contentType : MediaType := .applicationJson
  deprecation : Bool := false
  server : List Byte
  allow : List Method := []
  acceptEncoding : Bool := false
  body : Option (List Byte) := none
  deriving DecidableEq, Repr

/-- "Firecracker API" -/
def DEFAULT_SERVER : List Byte :=
  [0x46, 0x69, 0x72, 0x65, 0x63, 0x72, 0x61, 0x63, 0x6B, 0x65, 0x72, 0x20, 0x41, 0x50, 0x49]

/-- `Response::new`. -/
def Response.new (v : Version) (s : StatusCode) : Response :=
  { version := v, status := s,
    contentLength := match s with
      | .continue_ | .noContent => none
      | _ => some 0,
    server := DEFAULT_SERVER }

/-- The public builder calls. -/
inductive BuildOp
  | setBody (b : List Byte)
  | setContentType (m : MediaType)
  | setDeprecation
  | setEncoding
  | setServer (s : List Byte)
  | setAllow (ms : List Method)
  | allowMethod (m : Method)
  | setContentLength (n : Option Int)
  deriving DecidableEq, Repr

def Response.apply (r : Response) : BuildOp → Response
  | .setBody b => { r with contentLength := some (asI32 b.length), body := some b }
  | .setContentType m => { r with contentType := m }
  | .setDeprecation => { r with deprecation := true }
  | .setEncoding => { r with acceptEncoding := true }
  | .setServer s => { r with server := s }
  | .setAllow ms => { r with allow := ms }
  | .allowMethod m => { r with allow := r.allow ++ [m] }
  | .setContentLength n => { r with contentLength := n }

def Response.build (v : Version) (s : StatusCode) (ops : List BuildOp) : Response :=
  ops.foldl Response.apply (Response.new v s)

/-! the public getters of `Response` -/

/-- `content_length()`: the header value, 0 if absent -/
def Response.getContentLength (r : Response) : Int := r.contentLength.getD 0
/-- `body()` -/
def Response.getBody (r : Response) : Option (List Byte) := r.body
/-- `allow()` -/
def Response.getAllow (r : Response) : List Method := r.allow

/-- pieces of `write_allow_header` after "Allow: " -/
def allowPieces : List Method → List (List Byte)
  | [] => []
  | [m] => [m.raw]
  | m :: ms => m.raw :: [0x2C, 0x20] :: allowPieces ms

/-- The byte slices handed to `Write::write_all`, in order (one list element per call). -/
def Response.pieces (r : Response) : List (List Byte) :=
  -- StatusLine::write_all
  [r.version.raw, [SP], r.status.raw, [SP, CR, LF]] ++
  -- ResponseHeaders::write_all
  [[0x53, 0x65, 0x72, 0x76, 0x65, 0x72] /- "Server" -/, [COLON, SP], r.server, [CR, LF],
   [0x43, 0x6F, 0x6E, 0x6E, 0x65, 0x63, 0x74, 0x69, 0x6F, 0x6E, 0x3A, 0x20, 0x6B, 0x65, 0x65, 0x70,
    0x2D, 0x61, 0x6C, 0x69, 0x76, 0x65] /- "Connection: keep-alive" -/, [CR, LF]] ++
  (if r.allow.isEmpty then []
   else [[0x41, 0x6C, 0x6C, 0x6F, 0x77, 0x3A, 0x20] /- "Allow: " -/] ++ allowPieces r.allow ++ [[CR, LF]]) ++
  (if r.deprecation then
     [[0x44, 0x65, 0x70, 0x72, 0x65, 0x63, 0x61, 0x74, 0x69, 0x6F, 0x6E, 0x3A, 0x20, 0x74, 0x72, 0x75, 0x65]
        /- "Deprecation: true" -/, [CR, LF]]
   else []) ++
  (match r.contentLength with
   | none => []
   | some n =>
     [[0x43, 0x6F, 0x6E, 0x74, 0x65, 0x6E, 0x74, 0x2D, 0x54, 0x79, 0x70, 0x65] /- "Content-Type" -/,
      [COLON, SP], r.contentType.raw, [CR, LF],
      [0x43, 0x6F, 0x6E, 0x74, 0x65, 0x6E, 0x74, 0x2D, 0x4C, 0x65, 0x6E, 0x67, 0x74, 0x68] /- "Content-Length" -/,
      [COLON, SP], decimalInt n, [CR, LF]] ++
     (if r.acceptEncoding then
        [[0x41, 0x63, 0x63, 0x65, 0x70, 0x74, 0x2D, 0x45, 0x6E, 0x63, 0x6F, 0x64, 0x69, 0x6E, 0x67]
           /- "Accept-Encoding" -/, [COLON, SP],
         [0x69, 0x64, 0x65, 0x6E, 0x74, 0x69, 0x74, 0x79] /- "identity" -/, [CR, LF]]
      else [])) ++
  [[CR, LF]] ++
  -- write_body
  (match r.body with
   | none => []
   | some b => [b])

/-- What `Response::write_all` produces into an unbounded sink. -/
def Response.serialize (r : Response) : List Byte := r.pieces.flatten

/-- One call of the sink's `write(buf)` as the environment decides it. -/
inductive SinkStep
  | accept (k : Nat)      -- Ok(k), clipped to 1..len by `writeAllOne`
  | zero                  -- Ok(0)
  | interrupted           -- Err(Interrupted)
  | fail                  -- any other Err
  deriving DecidableEq, Repr

/-- `std::io::Write::write_all(buf)` against a scripted sink: returns bytes accepted so far
    (appended to `acc`), the remaining script, and whether it ended `Ok`. Empty `buf` never calls the sink. -/
def writeAllOne : List SinkStep → List Byte → List Byte → List Byte × List SinkStep × Bool
  | [], buf, acc => (acc, [], buf.isEmpty)          -- script exhausted: treated as a failing sink
  | s :: sched, buf, acc =>
    if buf.isEmpty then (acc, s :: sched, true)
    else match s with
      | .accept k =>
        let n := min (max k 1) buf.length
        writeAllOne sched (buf.drop n) (acc ++ buf.take n)
      | .zero => (acc, sched, false)                -- ErrorKind::WriteZero
      | .interrupted => writeAllOne sched buf acc
      | .fail => (acc, sched, false)

/-- `Response::write_all` against a scripted sink. -/
def writeAllPieces : List SinkStep → List (List Byte) → List Byte → List Byte × Bool
  | _, [], acc => (acc, true)
  | sched, p :: ps, acc =>
    match writeAllOne sched p acc with
    | (acc', sched', true) => writeAllPieces sched' ps acc'
    | (acc', _, false) => (acc', false)

def Response.writeAll (r : Response) (sched : List SinkStep) : List Byte × Bool :=
  writeAllPieces sched r.pieces []

end MicroHttp
