/-
  MicroHttp.Conn — `HttpConnection` of connection.rs at code level ("L0"):
  `try_read` (read_bytes, parse_request_line, parse_headers, parse_body, shift_buffer_left,
  the RequestReady step, and the reset after a ParseError), `try_write`, `enqueue_response`,
  `pop_parsed_request`, `pending_write`, `clear_write_buffer`.

  * The receive buffer is modelled by `win = buffer[0 .. read_cursor)`; a read forms
    `buf = win ++ chunk`, `end_cursor = buf.length`.
  * Every slice / unwrap / drain is a checked operation whose failure is `Fault.panic`.
  * `try_read`'s `loop` takes fuel; exhaustion is `Fault.panic .fuel`.
  * The core is generic in `Params` (how a request line / header line is parsed), so the
    refinement proof cannot depend on header details; `P0` instantiates it with the real parsers.
-/
import MicroHttp.Request
import MicroHttp.Response
namespace MicroHttp

structure Params (RL H : Type) where
  /-- BUFFER_SIZE -/
  B : Nat
  /-- `RequestLine::try_from` -/
  parseRL : List Byte → Except Fault RL
  /-- `headers.parse_header_line(line)` with `UnsupportedValue` ignored -/
  parseHL : H → List Byte → Except ReqErr H
  /-- `Headers::default()` -/
  h0 : H
  clen : H → Nat
  expect : H → Bool
  /-- `Response::new(request.http_version(), StatusCode::Continue)` -/
  contOf : RL → Response
  /-- the error for a header line that fills the whole buffer (carries the lossy text of the buffer) -/
  hdrTooLong : List Byte → ReqErr

inductive PState | reqLine | headers | body | ready
  deriving DecidableEq, Repr

structure Conn (RL H : Type) where
  state : PState := .reqLine
  pending : Option (Req RL H) := none
  /-- `buffer[0 .. read_cursor)` -/
  win : List Byte := []
  bodyVec : List Byte := []
  toRead : Nat := 0
  parsed : List (Req RL H) := []
  respQ : List Response := []
  respBuf : Option (List Byte) := none
  files : List Nat := []
  limit : Nat

variable {RL H : Type}

/-- `shift_buffer_left(start, end)`: closed form of the two loops. -/
def shiftLeft (P : Params RL H) (c : Conn RL H) (buf : List Byte) (start stop : Nat) :
    Except Fault (Conn RL H) :=
  if stop > P.B then .error (.parse .overflow)
  else if stop < start then .error (.parse .underflow)
  else do
    let w ← slice buf start stop
    pure { c with win := w }

def parseRequestLine (P : Params RL H) (c : Conn RL H) (buf : List Byte) (start stop : Nat) :
    Except Fault (Conn RL H × Nat × Bool) :=
  if stop < start then .error (.parse .underflow)
  else if stop > P.B then .error (.parse .overflow)
  else do
    let s ← slice buf start stop
    match find CRLF s with
    | some i =>
      let line ← slice buf start (start + i)
      let start' := start + i + 2
      match P.parseRL line with
      | .error e => .error e
      | .ok rl =>
        pure ({ c with pending := some ⟨rl, P.h0, none, []⟩, state := .headers }, start', true)
    | none =>
      if stop = P.B ∧ start = 0 then .error (.parse .invalidRequest)
      else do
        let c' ← shiftLeft P c buf start stop
        pure (c', start, false)

def parseHeaders (P : Params RL H) (c : Conn RL H) (buf : List Byte) (start stop : Nat) :
    Except Fault (Conn RL H × Nat × Bool) :=
  if stop > P.B then .error (.parse .overflow)
  else if stop < start then .error (.parse .underflow)
  else do
    let s ← slice buf start stop
    match find CRLF s with
    | some 0 =>
      match c.pending with
      | none => .error (.parse .headersWithoutPendingRequest)
      | some r =>
        if P.clen r.headers = 0 then
          pure ({ c with state := .ready }, start + 2, true)
        else if P.clen r.headers > c.limit then
          .error (.parse (.sizeLimitExceeded c.limit (P.clen r.headers)))
        else
          let q := if P.expect r.headers then c.respQ ++ [P.contOf r.line] else c.respQ
          pure ({ c with respQ := q, toRead := P.clen r.headers,
                         pending := some { r with body := some [] }, state := .body }, start + 2, true)
    | some (i+1) =>
      match c.pending with
      | none => .error (.parse .headersWithoutPendingRequest)
      | some r => do
        let lineEnd := (i+1) + start
        let line ← slice buf start lineEnd
        match P.parseHL r.headers line with
        | .error e => .error (.parse e)
        | .ok h' => pure ({ c with pending := some { r with headers := h' } }, lineEnd + 2, true)
    | none =>
      if start = 0 ∧ stop = P.B then .error (.parse (P.hdrTooLong buf))
      else do
        let c' ← shiftLeft P c buf start stop
        pure (c', start, false)

def parseBody (P : Params RL H) (c : Conn RL H) (buf : List Byte) (start stop : Nat) :
    Except Fault (Conn RL H × Nat × Bool) :=
  if stop > P.B then .error (.parse .overflow)
  else if stop < start then .error (.parse .underflow)
  else
    let startToEnd := stop - start
    if c.toRead > startToEnd then do
      let s ← slice buf start stop
      pure ({ c with bodyVec := c.bodyVec ++ s, toRead := c.toRead - startToEnd, win := [] }, start, false)
    else do
      let lineEnd := start + c.toRead
      let s ← slice buf start lineEnd
      let bodyVec := c.bodyVec ++ s
      match c.pending with
      | none => .error (.parse .bodyWithoutPendingRequest)
      | some r =>
        -- `body_vec.drain(..content_length)` panics if content_length > len
        if P.clen r.headers > bodyVec.length then .error (.panic .drain)
        else
          let body := bodyVec.take (P.clen r.headers)
          let restVec := bodyVec.drop (P.clen r.headers)
          if restVec ≠ [] then .error (.parse .invalidRequest)
          else pure ({ c with bodyVec := restVec, toRead := 0,
                              pending := some { r with body := some body }, state := .ready }, lineEnd, true)

/-- The `RequestReady` arm of `try_read`. -/
def stepReady (c : Conn RL H) : Except Fault (Conn RL H) :=
  match c.pending with
  | none => .error (.panic .unwrap)
  | some r => pure { c with state := .reqLine, toRead := 0, pending := none, files := [],
                            parsed := c.parsed ++ [{ r with files := c.files }] }

/-- `try_read`'s `loop`. On failure the connection as it was before the failing call is
    returned with the fault (`parsed` and `respQ`, the only fields that survive the reset,
    are not touched by a failing call). -/
def loop (P : Params RL H) : Nat → Conn RL H → List Byte → Nat → Nat → Conn RL H × Option Fault
  | 0, c, _, _, _ => (c, some (.panic .fuel))
  | fuel+1, c, buf, start, stop =>
    match c.state with
    | .reqLine =>
      match parseRequestLine P c buf start stop with
      | .error f => (c, some f)
      | .ok (c', s', more) => if more then loop P fuel c' buf s' stop else (c', none)
    | .headers =>
      match parseHeaders P c buf start stop with
      | .error f => (c, some f)
      | .ok (c', s', more) => if more then loop P fuel c' buf s' stop else (c', none)
    | .body =>
      match parseBody P c buf start stop with
      | .error f => (c, some f)
      | .ok (c', s', more) => if more then loop P fuel c' buf s' stop else (c', none)
    | .ready =>
      match stepReady c with
      | .error f => (c, some f)
      | .ok c' => loop P fuel c' buf start stop

/-- What the stream's `recv_with_fds` returned. -/
inductive Recv
  | data (chunk : List Byte) (fds : List Nat)    -- Ok((n, fds)); `chunk = []` is end of stream
  | err (errno : Nat)                            -- Err(errno)  (EAGAIN, EINTR, ECONNRESET, …)
  deriving DecidableEq, Repr

inductive ReadOut
  | ok
  | closed
  | streamErr (errno : Nat)
  | parseErr (e : ReqErr)
  | panic (p : Panic)
  deriving DecidableEq, Repr

/-- The reset `try_read` performs when it reports a `ParseError`. -/
def resetParser (c : Conn RL H) : Conn RL H :=
  { c with state := .reqLine, pending := none, win := [], bodyVec := [], toRead := 0, files := [] }

def fuelFor (P : Params RL H) : Nat := 2 * P.B + 4

/-- `HttpConnection::try_read`, given what the single `recv_with_fds` call returns.
    A chunk longer than the free space of the buffer is cut (`recv` gets a slice of that size). -/
def tryRead (P : Params RL H) (c : Conn RL H) (inp : Recv) : Conn RL H × ReadOut :=
  if c.win.length ≥ P.B then (resetParser c, .parseErr .overflow)
  else
    match inp with
    | .err errno => (c, .streamErr errno)
    | .data chunk fds =>
      let chunk' := chunk.take (P.B - c.win.length)
      let c1 := { c with files := c.files ++ fds }
      if chunk'.isEmpty then (c1, .closed)
      else
        let buf := c.win ++ chunk'
        match loop P (fuelFor P) c1 buf 0 buf.length with
        | (c2, none) => (c2, .ok)
        | (c2, some (.parse e)) => (resetParser c2, .parseErr e)
        | (c2, some (.panic p)) => (c2, .panic p)

/-- number of bytes `try_read` takes from an offered chunk -/
def takes (P : Params RL H) (c : Conn RL H) (chunk : List Byte) : Nat :=
  min chunk.length (P.B - c.win.length)

inductive WriteOut
  | ok
  | closed
  | invalidWrite
  deriving DecidableEq, Repr

/-- `clear_write_buffer` -/
def clearWrite (c : Conn RL H) : Conn RL H := { c with respQ := [], respBuf := none }

/-- `set_payload_max_size` (callable at any time; the limit is consulted when a header block ends) -/
def setLimit (c : Conn RL H) (n : Nat) : Conn RL H := { c with limit := n }

/-- `HttpConnection::try_write`, given what the single `stream.write` call returns.
    Result: new connection, outcome, the bytes the stream accepted, whether the stream was called. -/
def tryWrite (c : Conn RL H) (w : SinkStep) : Conn RL H × WriteOut × List Byte × Bool :=
  let start : Option (Conn RL H × List Byte) :=
    match c.respBuf with
    | some b => some (c, b)
    | none =>
      match c.respQ with
      | [] => none
      | r :: q => some ({ c with respQ := q, respBuf := some r.serialize }, r.serialize)
  match start with
  | none => (c, .invalidWrite, [], false)
  | some (c1, buf) =>
    match w with
    | .accept k =>
      let n := min (max k 1) buf.length
      if n = 0 then (clearWrite c1, .closed, [], true)
      else if n ≠ buf.length then ({ c1 with respBuf := some (buf.drop n) }, .ok, buf.take n, true)
      else ({ c1 with respBuf := none }, .ok, buf, true)
    | .zero => (clearWrite c1, .closed, [], true)
    | .interrupted => (c1, .ok, [], true)
    | .fail => (clearWrite c1, .closed, [], true)

def enqueue (c : Conn RL H) (r : Response) : Conn RL H := { c with respQ := c.respQ ++ [r] }

def popParsed (c : Conn RL H) : Conn RL H × Option (Req RL H) :=
  match c.parsed with
  | [] => (c, none)
  | r :: rs => ({ c with parsed := rs }, some r)

def pendingWrite (c : Conn RL H) : Bool := c.respBuf.isSome || !c.respQ.isEmpty

/-- `HttpConnection::new` followed by `set_payload_max_size(limit)` -/
def Conn.new (limit : Nat) : Conn RL H := { limit := limit }

/-- `String::from_utf8_lossy(&self.buffer)` wrapped in the header size-limit error -/
def hdrTooLong0 (buf : List Byte) : ReqErr := .headerError (.sizeLimitExceeded (fromUtf8Lossy buf))

/-- The instance the crate actually uses. -/
def P0 : Params RequestLine Headers where
  B := 1024
  parseRL := RequestLine.tryFrom
  parseHL := Headers.applyLine
  h0 := Headers.default
  clen := fun h => h.contentLength
  expect := fun h => h.expect
  contOf := fun rl => Response.new rl.version .continue_
  hdrTooLong := hdrTooLong0

/-- MAX_PAYLOAD_SIZE -/
def MAX_PAYLOAD_SIZE : Nat := 51200

abbrev Conn0 := Conn RequestLine Headers

end MicroHttp
