/-
  MicroHttp.Conn00 — the input side of `HttpConnection` with the receive buffer as it is in the
  Rust code: a fixed array of `BUFFER_SIZE` bytes that keeps stale bytes, `read_cursor`, the two
  loops of `shift_buffer_left`, the zero-fill loops, `recv` writing into `buffer[read_cursor..]`.
  `Conn.lean` abstracts this to the window `win = buffer[0 .. read_cursor)`; the simulation theorem
  `Proofs/Buffer.lean : tryRead00_simulates` shows that the abstraction loses nothing: every read the
  code performs on the buffer falls inside the bytes that were received, so stale bytes are never
  observed. (The write side does not touch the buffer and is shared with `Conn.lean`.)
-/
import MicroHttp.Conn
namespace MicroHttp

structure Conn00 (RL H : Type) where
  state : PState := .reqLine
  pending : Option (Req RL H) := none
  /-- `[u8; BUFFER_SIZE]` -/
  buffer : List Byte
  readCursor : Nat := 0
  bodyVec : List Byte := []
  toRead : Nat := 0
  parsed : List (Req RL H) := []
  respQ : List Response := []
  respBuf : Option (List Byte) := none
  files : List Nat := []
  limit : Nat

variable {RL H : Type}

/-- `HttpConnection::new` + `set_payload_max_size`: a zeroed buffer -/
def Conn00.new (P : Params RL H) (limit : Nat) : Conn00 RL H :=
  { buffer := List.replicate P.B 0, limit := limit }

/-- `for cursor in 0..delta { buffer[cursor] = buffer[start + cursor] }` (in place, ascending) -/
def copyLoop (start : Nat) : List Nat → List Byte → List Byte
  | [], buf => buf
  | cursor :: rest, buf =>
    match buf[start + cursor]? with
    | some b => copyLoop start rest (buf.set cursor b)
    | none => copyLoop start rest buf          -- out of range: cannot happen (checked by the caller)

/-- `for cursor in a..b { buffer[cursor] = 0 }` -/
def zeroLoop : List Nat → List Byte → List Byte
  | [], buf => buf
  | cursor :: rest, buf => zeroLoop rest (buf.set cursor 0)

def rangeFrom (a b : Nat) : List Nat := (List.range (b - a)).map (· + a)

/-- `shift_buffer_left(line_start_index, end_cursor)` with its two loops. -/
def shiftLeft00 (P : Params RL H) (c : Conn00 RL H) (start stop : Nat) : Except Fault (Conn00 RL H) :=
  if stop > P.B then .error (.parse .overflow)
  else if stop < start then .error (.parse .underflow)
  else
    let delta := stop - start
    let buffer' :=
      if start ≠ 0 then zeroLoop (rangeFrom delta stop) (copyLoop start (List.range delta) c.buffer)
      else c.buffer
    .ok { c with buffer := buffer', readCursor := delta }

def parseRequestLine00 (P : Params RL H) (c : Conn00 RL H) (start stop : Nat) :
    Except Fault (Conn00 RL H × Nat × Bool) :=
  if stop < start then .error (.parse .underflow)
  else if stop > P.B then .error (.parse .overflow)
  else do
    let s ← slice c.buffer start stop
    match find CRLF s with
    | some i =>
      let line ← slice c.buffer start (start + i)
      let start' := start + i + 2
      match P.parseRL line with
      | .error e => .error e
      | .ok rl =>
        pure ({ c with pending := some ⟨rl, P.h0, none, []⟩, state := .headers }, start', true)
    | none =>
      if stop = P.B ∧ start = 0 then .error (.parse .invalidRequest)
      else do
        let c' ← shiftLeft00 P c start stop
        pure (c', start, false)

def parseHeaders00 (P : Params RL H) (c : Conn00 RL H) (start stop : Nat) :
    Except Fault (Conn00 RL H × Nat × Bool) :=
  if stop > P.B then .error (.parse .overflow)
  else if stop < start then .error (.parse .underflow)
  else do
    let s ← slice c.buffer start stop
    match find CRLF s with
    | some 0 =>
      match c.pending with
      | none => .error (.parse .headersWithoutPendingRequest)
      | some r =>
        if P.clen r.headers = 0 then
          pure ({ c with state := .ready }, start + 2, true)
        else if P.clen r.headers > c.limit then
          .error (.parse (.sizeLimitExceeded c.limit (P.clen r.headers)))
        else
          let q := if P.expect r.headers then c.respQ ++ [P.contOf r.line] else c.respQ
          pure ({ c with respQ := q, toRead := P.clen r.headers,
                         pending := some { r with body := some [] }, state := .body }, start + 2, true)
    | some (i+1) =>
      match c.pending with
      | none => .error (.parse .headersWithoutPendingRequest)
      | some r => do
        let lineEnd := (i+1) + start
        let line ← slice c.buffer start lineEnd
        match P.parseHL r.headers line with
        | .error e => .error (.parse e)
        | .ok h' => pure ({ c with pending := some { r with headers := h' } }, lineEnd + 2, true)
    | none =>
      -- `String::from_utf8_lossy(&self.buffer)`: the WHOLE array
      if start = 0 ∧ stop = P.B then .error (.parse (P.hdrTooLong c.buffer))
      else do
        let c' ← shiftLeft00 P c start stop
        pure (c', start, false)

def parseBody00 (P : Params RL H) (c : Conn00 RL H) (start stop : Nat) :
    Except Fault (Conn00 RL H × Nat × Bool) :=
  if stop > P.B then .error (.parse .overflow)
  else if stop < start then .error (.parse .underflow)
  else
    let startToEnd := stop - start
    if c.toRead > startToEnd then do
      let s ← slice c.buffer start stop
      -- `for i in 0..BUFFER_SIZE { self.buffer[i] = 0 }; self.read_cursor = 0`
      pure ({ c with bodyVec := c.bodyVec ++ s, toRead := c.toRead - startToEnd,
                     buffer := zeroLoop (List.range P.B) c.buffer, readCursor := 0 }, start, false)
    else do
      let lineEnd := start + c.toRead
      let s ← slice c.buffer start lineEnd
      let bodyVec := c.bodyVec ++ s
      match c.pending with
      | none => .error (.parse .bodyWithoutPendingRequest)
      | some r =>
        if P.clen r.headers > bodyVec.length then .error (.panic .drain)
        else
          let body := bodyVec.take (P.clen r.headers)
          let restVec := bodyVec.drop (P.clen r.headers)
          if restVec ≠ [] then .error (.parse .invalidRequest)
          else pure ({ c with bodyVec := restVec, toRead := 0,
                              pending := some { r with body := some body }, state := .ready }, lineEnd, true)

def stepReady00 (c : Conn00 RL H) : Except Fault (Conn00 RL H) :=
  match c.pending with
  | none => .error (.panic .unwrap)
  | some r => pure { c with state := .reqLine, toRead := 0, pending := none, files := [],
                            parsed := c.parsed ++ [{ r with files := c.files }] }

def loop00 (P : Params RL H) : Nat → Conn00 RL H → Nat → Nat → Conn00 RL H × Option Fault
  | 0, c, _, _ => (c, some (.panic .fuel))
  | fuel+1, c, start, stop =>
    match c.state with
    | .reqLine =>
      match parseRequestLine00 P c start stop with
      | .error f => (c, some f)
      | .ok (c', s', more) => if more then loop00 P fuel c' s' stop else (c', none)
    | .headers =>
      match parseHeaders00 P c start stop with
      | .error f => (c, some f)
      | .ok (c', s', more) => if more then loop00 P fuel c' s' stop else (c', none)
    | .body =>
      match parseBody00 P c start stop with
      | .error f => (c, some f)
      | .ok (c', s', more) => if more then loop00 P fuel c' s' stop else (c', none)
    | .ready =>
      match stepReady00 c with
      | .error f => (c, some f)
      | .ok c' => loop00 P fuel c' start stop

/-- the reset after a `ParseError`: the buffer is NOT cleared, only the cursor is rewound -/
def resetParser00 (c : Conn00 RL H) : Conn00 RL H :=
  { c with state := .reqLine, pending := none, readCursor := 0, bodyVec := [], toRead := 0, files := [] }

/-- `recv` writes the bytes it takes into `buffer[read_cursor..]`, everything else stays -/
def writeAt (buf : List Byte) (at_ : Nat) (bytes : List Byte) : List Byte :=
  buf.take at_ ++ bytes ++ buf.drop (at_ + bytes.length)

def tryRead00 (P : Params RL H) (c : Conn00 RL H) (inp : Recv) : Conn00 RL H × ReadOut :=
  if c.readCursor ≥ P.B then (resetParser00 c, .parseErr .overflow)
  else
    match inp with
    | .err errno => (c, .streamErr errno)
    | .data chunk fds =>
      let chunk' := chunk.take (P.B - c.readCursor)
      let c1 := { c with files := c.files ++ fds, buffer := writeAt c.buffer c.readCursor chunk' }
      if chunk'.isEmpty then (c1, .closed)
      else
        match loop00 P (fuelFor P) c1 0 (c.readCursor + chunk'.length) with
        | (c2, none) => (c2, .ok)
        | (c2, some (.parse e)) => (resetParser00 c2, .parseErr e)
        | (c2, some (.panic p)) => (c2, .panic p)

/-- the window abstraction: forget everything beyond `read_cursor` -/
def Conn00.abs (c : Conn00 RL H) : Conn RL H :=
  { state := c.state, pending := c.pending, win := c.buffer.take c.readCursor, bodyVec := c.bodyVec,
    toRead := c.toRead, parsed := c.parsed, respQ := c.respQ, respBuf := c.respBuf, files := c.files,
    limit := c.limit }

/-- well-formedness of the concrete state: the array has its size and the cursor is inside it -/
def Conn00.WF (P : Params RL H) (c : Conn00 RL H) : Prop :=
  c.buffer.length = P.B ∧ c.readCursor ≤ P.B

end MicroHttp
