/-
  MicroHttp.Request — `Uri::try_from`, `RequestLine::{parse_request_line, try_from}`,
  `Request::try_from` (the one-shot parser) of request.rs.
  Every slice / unchecked subtraction of the Rust code is a checked operation here
  (`Fault.panic`), so "no panic" is a theorem, not a convention.
-/
import MicroHttp.Headers
namespace MicroHttp

/-- `&buf[a..b]`: panics unless `a ≤ b ≤ len`. -/
def slice (buf : List Byte) (a b : Nat) : Except Fault (List Byte) :=
  if a ≤ b ∧ b ≤ buf.length then .ok ((buf.drop a).take (b - a)) else .error (.panic .slice)

/-- `&buf[a..]`: panics unless `a ≤ len`. -/
def sliceFrom (buf : List Byte) (a : Nat) : Except Fault (List Byte) :=
  if a ≤ buf.length then .ok (buf.drop a) else .error (.panic .slice)

/-- `a - b` on `usize` (debug-build panic on underflow; in release it would wrap — treated as a fault). -/
def checkedSub (a b : Nat) : Except Fault Nat :=
  if b ≤ a then .ok (a - b) else .error (.panic .sub)

structure RequestLine where
  method : Method
  uri : List Byte
  version : Version
  deriving DecidableEq, Repr

def Uri.tryFrom (bs : List Byte) : Except ReqErr (List Byte) :=
  if bs.isEmpty then .error (.invalidUri .empty)
  else if isUtf8 bs then .ok bs
  else .error (.invalidUri .notUtf8)

/-- `RequestLine::parse_request_line`: split at the first two SP. -/
def RequestLine.parts (line : List Byte) : Except Fault (List Byte × List Byte × List Byte) :=
  match find [SP] line with
  | none => .error (.parse .invalidRequest)
  | some methodEnd => do
    let method ← slice line 0 methodEnd
    let uriAndVersion ← sliceFrom line (methodEnd + 1)
    match find [SP] uriAndVersion with
    | none => .error (.parse .invalidRequest)
    | some uriEnd => do
      let uri ← slice uriAndVersion 0 uriEnd
      let version ← sliceFrom uriAndVersion (uriEnd + 1)
      pure (method, uri, version)

/-- `RequestLine::try_from`: shape, then method, then URI, then version. -/
def RequestLine.tryFrom (line : List Byte) : Except Fault RequestLine := do
  let (m, u, v) ← RequestLine.parts line
  match Method.tryFrom m with
  | none => .error (.parse .invalidHttpMethod)
  | some method =>
    match Uri.tryFrom u with
    | .error e => .error (.parse e)
    | .ok uri =>
      match Version.tryFrom v with
      | none => .error (.parse .invalidHttpVersion)
      | some version => pure ⟨method, uri, version⟩

/-- `RequestLine::min_len()` = len("GET") + 1 + len("HTTP/1.0") + 2. -/
def RequestLine.minLen : Nat := 14

/-- A parsed request, generic in the request-line and header types (the connection core never
    looks inside them). `files` are opaque descriptor tokens. -/
structure Req (RL H : Type) where
  line : RL
  headers : H
  body : Option (List Byte)
  files : List Nat := []
  deriving DecidableEq, Repr

abbrev Request := Req RequestLine Headers

def CRLFCRLF : List Byte := [CR, LF, CR, LF]

/-- `Request::try_from(byte_stream, max_len)`. -/
def Request.tryFrom (bs : List Byte) (maxLen : Option Nat) : Except Fault Request :=
  let tooLong := match maxLen with
    | some limit => decide (bs.length ≥ limit)
    | none => false
  if tooLong then .error (.parse .invalidRequest)
  else
    match find CRLF bs with
    | none => .error (.parse .invalidRequest)
    | some requestLineEnd => do
      let requestLineBytes ← slice bs 0 requestLineEnd
      if requestLineBytes.length < RequestLine.minLen then .error (.parse .invalidRequest)
      else do
        let requestLine ← RequestLine.tryFrom requestLineBytes
        let tail ← sliceFrom bs requestLineEnd
        match find CRLFCRLF tail with
        | none => .error (.parse .invalidRequest)
        | some 0 => pure ⟨requestLine, Headers.default, none, []⟩
        | some headersEnd0 => do
          let headersStart := requestLineEnd + 2
          let headersAndBody ← sliceFrom bs headersStart
          let headersEnd ← checkedSub headersEnd0 2
          let headerBytes ← slice headersAndBody 0 headersEnd
          match Headers.tryFrom headerBytes with
          | .error e => .error (.parse e)
          | .ok headers =>
            if headers.contentLength = 0 then pure ⟨requestLine, headers, none, []⟩
            else if requestLine.method = .get then .error (.parse .invalidRequest)
            else do
              let crlfEnd := headersEnd + 4
              let bodyLen ← checkedSub headersAndBody.length crlfEnd
              if bodyLen < headers.contentLength then .error (.parse .invalidRequest)
              else do
                let bodyBytes ← sliceFrom headersAndBody crlfEnd
                if bodyBytes.length = headers.contentLength then
                  pure ⟨requestLine, headers, some bodyBytes, []⟩
                else .error (.parse .invalidRequest)

end MicroHttp
