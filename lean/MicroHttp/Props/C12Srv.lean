/-
  C12 / C01 at the server — the output side of the server does not touch what a connection has received.

  `C01.output_side_invisible` says it for one `HttpConnection`. Through `HttpServer` the output side is driven by
  `respond` / `enqueue_responses`, by `OUT` events inside `requests()` and by `flush_outgoing_writes`, each of which
  also moves the connection between its states (awaiting input / output, closed). A seeded change (round nineteen)
  let the write path of the SERVER "release staging" of a connection that had gone idle — dropping descriptors that
  had arrived with the first bytes of the next request. The theorems here state what excludes it: whatever answers
  are supplied, whatever the stream does with the writes (all, some, none, EINTR, failure), no connection is added or
  removed by these operations and every connection agrees with its former self on the whole input side — parser
  state, window, staged body, PENDING DESCRIPTORS, limit, completed requests (`C01.InEq`).
-/
import MicroHttp.Server
import MicroHttp.Props.C01IO
namespace MicroHttp.C12Srv
open MicroHttp MicroHttp.C01

/-- every connection of `t` is a connection of `s` (same descriptor, same identity) with the same input side -/
def KeepsInputs (s t : Srv) : Prop :=
  t.conns.length = s.conns.length ∧
  ∀ d ∈ t.conns, ∃ c ∈ s.conns, c.fd = d.fd ∧ c.inst = d.inst ∧ InEq d.conn c.conn

theorem KeepsInputs.refl (s : Srv) : KeepsInputs s s :=
  ⟨rfl, fun d hd => ⟨d, hd, rfl, rfl, InEq.refl _⟩⟩

theorem KeepsInputs.trans {a b c : Srv} (h1 : KeepsInputs a b) (h2 : KeepsInputs b c) : KeepsInputs a c := by
  refine ⟨h2.1.trans h1.1, ?_⟩
  intro d hd
  obtain ⟨m, hm, f1, i1, e1⟩ := h2.2 d hd
  obtain ⟨x, hx, f2, i2, e2⟩ := h1.2 m hm
  exact ⟨x, hx, f2.trans f1, i2.trans i1, InEq.trans e1 e2⟩

theorem findClient_mem {cs : List Client} {fd : Nat} {c : Client} (h : findClient cs fd = some c) :
    c ∈ cs ∧ c.fd = fd := by
  unfold findClient at h
  exact ⟨List.mem_of_find?_eq_some h, by simpa using List.find?_some h⟩

/-- replacing a connection by one with the same descriptor, identity and input side -/
theorem keeps_of_replace (s t : Srv) (c c' : Client) (hc : c ∈ s.conns)
    (ht : t.conns = replaceClient s.conns c')
    (hfd : c'.fd = c.fd) (hinst : c'.inst = c.inst) (hin : InEq c'.conn c.conn) :
    KeepsInputs s t := by
  refine ⟨by rw [ht]; simp [replaceClient], ?_⟩
  intro d hd
  rw [ht] at hd
  simp only [replaceClient, List.mem_map] at hd
  obtain ⟨x, hx, rfl⟩ := hd
  by_cases hxe : x.fd = c'.fd
  · simp only [hxe, if_true]
    exact ⟨c, hc, hfd.symm, hinst.symm, hin⟩
  · simp only [hxe, if_false]
    exact ⟨x, hx, rfl, rfl, InEq.refl _⟩

/-- `ClientConnection::write`, whatever the stream does -/
theorem client_write_keeps (c : Client) (w : SinkStep) :
    (c.write w).1.fd = c.fd ∧ (c.write w).1.inst = c.inst ∧ InEq (c.write w).1.conn c.conn := by
  have h := write_keeps_input c.conn w
  unfold Client.write
  rcases hw : tryWrite c.conn w with ⟨conn', out, bytes, b⟩
  rw [hw] at h
  cases out <;> exact ⟨rfl, rfl, h⟩

/-- `HttpServer::respond` (and so every step of `enqueue_responses`) -/
theorem respond_keeps (s : Srv) (tok : Token) (r : Response) : KeepsInputs s (respond s tok r).1 := by
  unfold respond
  cases hf : findClient s.conns tok.fd with
  | none => exact ⟨rfl, fun d hd => ⟨d, hd, rfl, rfl, InEq.refl _⟩⟩
  | some c =>
    obtain ⟨hc, _⟩ := findClient_mem hf
    cases hs : c.state <;> cases hn : c.inflight <;> simp [hs, hn] <;>
      (refine keeps_of_replace s _ c _ hc rfl ?_ ?_ ?_ <;>
        first
          | rfl
          | exact enqueue_keeps_input _ _
          | exact InEq.refl _)

theorem respondMany_keeps (s : Srv) (rs : List (Token × Response)) : KeepsInputs s (respondMany s rs).1 := by
  induction rs generalizing s with
  | nil => exact KeepsInputs.refl s
  | cons x rest ih =>
    obtain ⟨tok, r⟩ := x
    unfold respondMany
    have h1 := respond_keeps s tok r
    rcases hr : respond s tok r with ⟨s', res, eff⟩
    rw [hr] at h1
    cases res with
    | ok => exact KeepsInputs.trans h1 (ih s')
    | underflow => exact h1

/-- an event of `requests()` that is neither a hang-up nor readable: the `OUT` branch (or nothing at all) -/
theorem out_event_keeps (s : Srv) (fd : Nat) (fl : EvFlags) (rd : Recv) (errText : List Byte) (wr : SinkStep)
    (hh : fl.hup = false) (hi : fl.inn = false) :
    KeepsInputs s (handleEv s (.client fd fl rd errText wr)).1 := by
  cases hf : findClient s.conns fd with
  | none => simp only [handleEv, hf]; exact KeepsInputs.refl s
  | some c =>
    obtain ⟨hc, _⟩ := findClient_mem hf
    by_cases ho : fl.out = true
    · obtain ⟨w1, w2, w3⟩ := client_write_keeps c wr
      rcases hw : c.write wr with ⟨c', bytes⟩
      rw [hw] at w1 w2 w3
      simp only [handleEv, hf, hh, hi, ho, hw, Bool.false_eq_true, if_false, if_true]
      split <;>
        (refine keeps_of_replace s _ c _ hc rfl ?_ ?_ ?_ <;>
          first
            | exact w1
            | exact w2
            | exact w3)
    · simp only [handleEv, hf, hh, hi, ho, Bool.false_eq_true, if_false]
      exact KeepsInputs.refl s

theorem flushClient_keeps (c : Client) (ws : List SinkStep) :
    (flushClient c ws).1.fd = c.fd ∧ (flushClient c ws).1.inst = c.inst ∧ InEq (flushClient c ws).1.conn c.conn := by
  induction ws generalizing c with
  | nil => exact ⟨rfl, rfl, InEq.refl _⟩
  | cons w ws ih =>
    unfold flushClient
    by_cases hs : c.state = .awaitingOut
    · simp only [hs, if_true]
      obtain ⟨w1, w2, w3⟩ := client_write_keeps c w
      rcases hw : c.write w with ⟨c', b⟩
      rw [hw] at w1 w2 w3
      obtain ⟨i1, i2, i3⟩ := ih c'
      simp only
      exact ⟨i1.trans w1, i2.trans w2, InEq.trans i3 w3⟩
    · simp only [hs, if_false]
      exact ⟨trivial, trivial, InEq.refl _⟩

/-- `flush_outgoing_writes`, whatever each write returns -/
theorem flush_keeps (s : Srv) (script : Nat → List SinkStep) : KeepsInputs s (flush s script).1 := by
  unfold flush
  refine ⟨by simp, ?_⟩
  intro d hd
  simp only [List.mem_map] at hd
  obtain ⟨p, hp, rfl⟩ := hd
  obtain ⟨c, hc, rfl⟩ := hp
  obtain ⟨f1, f2, f3⟩ := flushClient_keeps c (script c.fd)
  exact ⟨c, hc, f1.symm, f2.symm, f3⟩

/-- operations of the server's output side -/
inductive OutOp
  | respond (tok : Token) (r : Response)
  | respondMany (rs : List (Token × Response))
  | outEvent (fd : Nat) (wr : SinkStep)
  | flush (script : Nat → List SinkStep)

def applyOut (s : Srv) : OutOp → Srv
  | .respond tok r => (respond s tok r).1
  | .respondMany rs => (respondMany s rs).1
  | .outEvent fd wr => (handleEv s (.client fd { out := true } (.data [] []) [] wr)).1
  | .flush script => (flush s script).1

/-- For EVERY sequence of answers (to any token, live, stale or foreign), `OUT` events (any stream behaviour) and flushes:
    the server has exactly the connections it had, and each has exactly the input side it had — in particular the
    descriptors waiting for the next request to complete are all still there, in order. -/
theorem output_side_keeps_inputs (s : Srv) (ops : List OutOp) : KeepsInputs s (ops.foldl applyOut s) := by
  induction ops generalizing s with
  | nil => exact KeepsInputs.refl s
  | cons op ops ih =>
    simp only [List.foldl_cons]
    refine KeepsInputs.trans ?_ (ih _)
    cases op with
    | respond tok r => exact respond_keeps s tok r
    | respondMany rs => exact respondMany_keeps s rs
    | outEvent fd wr => exact out_event_keeps s fd _ _ _ wr rfl rfl
    | flush script => exact flush_keeps s script

/-- … spelled out for the descriptors -/
theorem pending_descriptors_survive_output (s : Srv) (ops : List OutOp) (d : Client)
    (hd : d ∈ (ops.foldl applyOut s).conns) :
    ∃ c ∈ s.conns, c.fd = d.fd ∧ c.inst = d.inst ∧ d.conn.files = c.conn.files ∧ d.conn.parsed = c.conn.parsed := by
  obtain ⟨c, hc, h1, h2, h3⟩ := (output_side_keeps_inputs s ops).2 d hd
  exact ⟨c, hc, h1, h2, h3.1.2.2.2.2.2.1, h3.2⟩

set_option maxRecDepth 20000 in
/-- non-vacuity: a connection holding two pending descriptors and a partial request line, answered and written to -/
example :
    let c : Client := { fd := 7, inst := 0, conn := { (Conn.new 100 : Conn0) with win := [0x47, 0x45], files := [3, 4] }, inflight := 1 }
    let s : Srv := { conns := [c] }
    let t := [OutOp.respond ⟨7, 0⟩ (Response.new .http11 .ok), OutOp.outEvent 7 (.accept 1000)].foldl applyOut s
    t.conns.map (fun d => (d.conn.files, d.conn.win, d.state)) = [([3, 4], [0x47, 0x45], CState.awaitingIn)] := by decide

end MicroHttp.C12Srv
