/-
  C10 / C07 / C09 (continued) — the server invariant over WHOLE histories of public calls.

  `C10.requests_inv`, `respond_inv`, `flush_inv` are one-step statements. Here they are lifted to every
  history of the server's public operations — polls over any admissible batch with any read / write results,
  `respond`, `enqueue_responses` (which had no theorem of its own), `flush_outgoing_writes`,
  `set_payload_max_size`, `add_kill_switch` — in any order and of any length: the invariant holds in every
  reachable state, so at no point does the server hold more than 10 connections, two connections with one
  descriptor, a token that names a connection that is gone, or an in-flight count that disagrees with the
  unanswered requests.
-/
import MicroHttp.ServerSpec
import MicroHttp.Proofs.SrvInv
import MicroHttp.Props.C08
import MicroHttp.Props.C10
namespace MicroHttp.C10
open MicroHttp

/-- the public operations of `HttpServer` -/
inductive SOp
  | poll (evs : List Ev)
  | respond (tok : Token) (r : Response)
  | respondMany (l : List (Token × Response))
  | flush (script : Nat → List SinkStep)
  | setLimit (n : Nat)
  | addKill

def stepS (s : Srv) : SOp → Srv
  | .poll evs => (requests s evs).1
  | .respond tok r => (respond s tok r).1
  | .respondMany l => (respondMany s l).1
  | .flush script => (flush s script).1
  | .setLimit n => { s with limit := n }
  | .addKill => { s with hasKill := true }

/-- A1 for `enqueue_responses`: every response answers a request that is outstanding when its turn comes -/
def ManyOK : Srv → List (Token × Response) → Prop
  | _, [] => True
  | s, (tok, r) :: rest => tok ∈ s.outstanding ∧ ManyOK (respond s tok r).1 rest

/-- admissibility of one operation in the state in which it is performed (E1, E6 for polls; A1 for answers) -/
def OpOK (s : Srv) : SOp → Prop
  | .poll evs => EvsOK s evs
  | .respond tok _ => tok ∈ s.outstanding
  | .respondMany l => ManyOK s l
  | .flush _ => True
  | .setLimit _ => True
  | .addKill => True

def HistOK : Srv → List SOp → Prop
  | _, [] => True
  | s, op :: ops => OpOK s op ∧ HistOK (stepS s op) ops

def run (s : Srv) (ops : List SOp) : Srv := ops.foldl stepS s

/-- `enqueue_responses` preserves the invariant and never fails (no `Underflow`) when every response answers
    an outstanding request. -/
theorem respondMany_inv : ∀ (l : List (Token × Response)) (s : Srv), SrvInv s → ManyOK s l →
    SrvInv (respondMany s l).1 ∧ (respondMany s l).2 = .ok := by
  intro l
  induction l with
  | nil => intro s h _; exact ⟨h, rfl⟩
  | cons x rest ih =>
    intro s h hm
    obtain ⟨tok, r⟩ := x
    obtain ⟨h1, h2⟩ := hm
    have hok := C08.respond_ok s h tok h1 r
    have hinv := respond_inv s h tok h1 r
    have : respondMany s ((tok, r) :: rest) = respondMany (respond s tok r).1 rest := by
      rw [respondMany]
      cases hr : respond s tok r with
      | mk s' rest' =>
        obtain ⟨res, eff⟩ := rest'
        rw [hr] at hok
        simp only at hok
        subst hok
        rfl
    rw [this]
    exact ih _ hinv h2

theorem setLimit_inv (s : Srv) (h : SrvInv s) (n : Nat) : SrvInv { s with limit := n } :=
  ⟨h.fdsNodup, h.instsNodup, h.instsFresh, h.cap, h.clients, h.tokensLive, h.inflight⟩

theorem addKill_inv (s : Srv) (h : SrvInv s) : SrvInv { s with hasKill := true } :=
  ⟨h.fdsNodup, h.instsNodup, h.instsFresh, h.cap, h.clients, h.tokensLive, h.inflight⟩

theorem step_inv (s : Srv) (h : SrvInv s) (op : SOp) (hop : OpOK s op) : SrvInv (stepS s op) := by
  cases op with
  | poll evs => exact requests_inv s h evs hop
  | respond tok r => exact respond_inv s h tok hop r
  | respondMany l => exact (respondMany_inv l s h hop).1
  | flush script => exact flush_inv s h script
  | setLimit n => exact setLimit_inv s h n
  | addKill => exact addKill_inv s h

/-- The invariant holds after EVERY admissible history from every state that satisfies it … -/
theorem history_inv : ∀ (ops : List SOp) (s : Srv), SrvInv s → HistOK s ops → SrvInv (run s ops) := by
  intro ops
  induction ops with
  | nil => intro s h _; exact h
  | cons op ops ih =>
    intro s h hh
    exact ih (stepS s op) (step_inv s h op hh.1) hh.2

/-- … in particular in every state reachable from a new server: never more than 10 connections, never two
    connections with the same descriptor or the same identity, every outstanding token names a live connection
    instance, and every connection's in-flight count equals its unanswered requests. -/
theorem reachable (ops : List SOp) (hh : HistOK Srv.new ops) :
    (run Srv.new ops).conns.length ≤ 10 ∧ (run Srv.new ops).fds.Nodup ∧ (run Srv.new ops).insts.Nodup ∧
    (∀ tok ∈ (run Srv.new ops).outstanding, ∃ c ∈ (run Srv.new ops).conns, c.fd = tok.fd ∧ c.inst = tok.inst) ∧
    (∀ c ∈ (run Srv.new ops).conns, c.inflight = (run Srv.new ops).outstanding.count ⟨c.fd, c.inst⟩) := by
  have h := history_inv ops Srv.new inv_new hh
  exact ⟨h.cap, h.fdsNodup, h.instsNodup, h.tokensLive, h.inflight⟩

/-- non-vacuity: a history that accepts a client, yields a request from it and answers it through
    `enqueue_responses` is admissible, and the request really is outstanding when it is answered -/
example :
    let getReq : List Byte := [0x47, 0x45, 0x54, 0x20, 0x2F, 0x20, 0x48, 0x54, 0x54, 0x50, 0x2F, 0x31, 0x2E, 0x31, 0x0D, 0x0A, 0x0D, 0x0A]
    let ops : List SOp := [.poll [.listener 7], .poll [.client 7 { inn := true } (.data getReq []) [] .fail],
                           .respondMany [(⟨7, 0⟩, Response.new .http11 .ok)]]
    HistOK Srv.new ops ∧ (run Srv.new (ops.take 2)).outstanding = [⟨7, 0⟩] ∧ (run Srv.new ops).outstanding = [] := by
  refine ⟨⟨⟨?_, fun _ => trivial⟩, ⟨⟨⟨_, rfl, fun _ => rfl, fun h => by cases h⟩, fun _ => trivial⟩, ⟨⟨?_, trivial⟩, trivial⟩⟩⟩, by decide, by decide⟩
  · show (7 : Nat) ∉ Srv.fds Srv.new
    decide
  · show (⟨7, 0⟩ : Token) ∈ [(⟨7, 0⟩ : Token)]
    simp

end MicroHttp.C10
