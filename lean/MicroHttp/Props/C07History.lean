/-
  C07 (continued) — routing over WHOLE histories of public calls.

  `C07.outstanding_token_identifies` / `respond_routes` speak about one call from a state with the invariant.
  Lifted through `C10.history_inv`: wherever in an admissible history of public calls (any length, any order,
  any read / write results, connections coming and going, descriptor numbers reused) the application answers
  an outstanding request, the connection found under the token's descriptor number IS the instance that
  yielded the request, the response goes to the end of that instance's queue (or nowhere if it is closed),
  and every other connection is left exactly as it was.
-/
import MicroHttp.ServerSpec
import MicroHttp.Props.C07
import MicroHttp.Props.C10History
import MicroHttp.Props.C18History
namespace MicroHttp.C07
open MicroHttp MicroHttp.C10

/-- at every point of every admissible history an outstanding token names a live connection instance:
    descriptor number AND identity (no reuse of the number while the token is outstanding) -/
theorem token_identifies_throughout (s : Srv) (h : SrvInv s) (ops : List SOp) (hh : HistOK s ops)
    (tok : Token) (ht : tok ∈ (run s ops).outstanding) :
    ∃ c, findClient (run s ops).conns tok.fd = some c ∧ c.inst = tok.inst :=
  outstanding_token_identifies (run s ops) (history_inv ops s h hh) tok ht

/-- every answer of every admissible history is routed to the instance that yielded the request -/
theorem every_answer_routed (s : Srv) (h : SrvInv s) (pre : List SOp) (tok : Token) (r : Response) (post : List SOp)
    (hh : HistOK s (pre ++ .respond tok r :: post)) :
    let s₀ := run s pre
    ∃ c, findClient s₀.conns tok.fd = some c ∧ c.inst = tok.inst ∧
      (∀ c' ∈ (respond s₀ tok r).1.conns, c'.fd ≠ tok.fd → c' ∈ s₀.conns) ∧
      (∀ c', findClient (respond s₀ tok r).1.conns tok.fd = some c' →
        c'.inst = tok.inst ∧
        c'.conn.respQ = (if c.state = .closed then c.conn.respQ else c.conn.respQ ++ [r]) ∧
        c'.conn.respBuf = c.conn.respBuf ∧ c'.inflight + 1 = c.inflight) ∧
      (respond s₀ tok r).2.1 = .ok := by
  obtain ⟨hpre, hop⟩ := C18.histOK_split pre (.respond tok r) post s hh
  exact respond_routes (run s pre) (history_inv pre s h hpre) tok hop r

/-- non-vacuity: two clients accepted, the FIRST one's request yielded, then answered — the history is
    admissible and the other connection is there to be left alone -/
example :
    let getReq : List Byte := [0x47, 0x45, 0x54, 0x20, 0x2F, 0x20, 0x48, 0x54, 0x54, 0x50, 0x2F, 0x31, 0x2E, 0x31, 0x0D, 0x0A, 0x0D, 0x0A]
    let pre : List SOp := [.poll [.listener 7], .poll [.listener 8], .poll [.client 7 { inn := true } (.data getReq []) [] .fail]]
    HistOK Srv.new (pre ++ .respond ⟨7, 0⟩ (Response.new .http11 .ok) :: []) ∧ (run Srv.new pre).conns.length = 2 := by
  refine ⟨⟨⟨?_, fun _ => trivial⟩, ⟨⟨?_, fun _ => trivial⟩, ⟨⟨⟨_, rfl, fun _ => rfl, fun h => by cases h⟩, fun _ => trivial⟩,
    ⟨?_, trivial⟩⟩⟩⟩, by decide⟩
  · show (7 : Nat) ∉ Srv.fds Srv.new
    decide
  · show (8 : Nat) ∉ Srv.fds _
    decide
  · show (⟨7, 0⟩ : Token) ∈ Srv.outstanding _
    decide

end MicroHttp.C07
