/-
  C07 / C08, end to end, in the well-behaved setting: for every history of clients connecting,
  sending (requests split and pipelined at will), reading, of the application answering outstanding
  requests in any order and with any delay, and of polls made when the epoll descriptor signals —
  what the application is yielded from a client is exactly what the byte-at-a-time specification
  delivers for the bytes that client sent, and what a client receives is exactly a prefix of the
  serialized responses queued for IT, which are the specification's interim responses and the
  application's answers to ITS requests in the order supplied.
-/
import MicroHttp.System
import MicroHttp.Proofs.SystemEnd
namespace MicroHttp.C08
open MicroHttp

/-- The invariants hold along every admissible history. -/
theorem system_inv (ops : List SysOp) (h : Sys.init.opsOK ops) :
    SrvInv (Sys.init.run ops).w.srv ∧ (Sys.init.run ops).w.WellBehaved := by
  exact ⟨(SysInv_history ops h).srv, (SysInv_history ops h).wb⟩

/-- Nothing is lost or invented on the way in: what a client has sent is what the server has
    consumed followed by what is still waiting in the socket. -/
theorem sent_is_consumed_plus_unread (ops : List SysOp) (h : Sys.init.opsOK ops) (fd : Nat) :
    (Sys.init.run ops).sentBy fd = (Sys.init.run ops).consumed fd ++ ((Sys.init.run ops).w.sock fd).unread := by
  exact (SysInv_history ops h).sent fd

/-- Yield-once, end to end: as long as a client's bytes contain no error for the specification,
    the requests yielded from it — over all polls, whatever the segmentation by the kernel and the
    timing of the polls — are exactly, in order and once each, the deliveries of the byte-at-a-time
    specification on the bytes consumed from it (with the limit its connection got at accept). -/
theorem yielded_is_spec (ops : List SysOp) (h : Sys.init.opsOK ops) (fd : Nat)
    (outs : List (Out RequestLine Headers)) (a : Abs RequestLine Headers)
    (hspec : feed P0 ((Sys.init.run ops).limitOf fd) Abs.fresh ((Sys.init.run ops).consumed fd) = (outs, .ok a)) :
    (Sys.init.run ops).yielded fd = delivers outs := by
  exact ((SysInv_history ops h).yielded_spec fd outs a hspec).1

/-- Delivery, end to end: what client `fd` has received, followed by what its connection still has
    to send, is exactly the serialization of the responses queued for `fd`, in queue order — no byte
    of anybody else's response, nothing lost, duplicated or reordered. -/
theorem received_is_own_queue (ops : List SysOp) (h : Sys.init.opsOK ops) (fd : Nat) :
    (Sys.init.run ops).gotBy fd ++
      (match findClient (Sys.init.run ops).w.srv.conns fd with
       | some c => unsentOf c
       | none => []) =
    ((Sys.init.run ops).queued fd).flatMap Response.serialize := by
  exact (SysInv_history ops h).received fd

/-- The queue of `fd` consists of the application's answers to `fd`'s own requests, in the order
    supplied, interleaved with the interim responses of the specification for `fd`'s own bytes. -/
theorem queue_is_answers_and_interims (ops : List SysOp) (h : Sys.init.opsOK ops) (fd : Nat)
    (outs : List (Out RequestLine Headers)) (a : Abs RequestLine Headers)
    (hspec : feed P0 ((Sys.init.run ops).limitOf fd) Abs.fresh ((Sys.init.run ops).consumed fd) = (outs, .ok a)) :
    ∃ marks : List Bool, marks.length = ((Sys.init.run ops).queued fd).length ∧
      ((((Sys.init.run ops).queued fd).zip marks).filter (·.2)).map (·.1) = (Sys.init.run ops).supplied fd ∧
      ((((Sys.init.run ops).queued fd).zip marks).filter (fun x => !x.2)).map (·.1) = conts outs := by
  exact ((SysInv_history ops h).yielded_spec fd outs a hspec).2

/-- Answers are only supplied for yielded requests: at every moment the number of answers supplied
    for `fd` plus its outstanding tokens equals the number of requests yielded from it. -/
theorem answers_match_yields (ops : List SysOp) (h : Sys.init.opsOK ops) (fd : Nat) :
    ((Sys.init.run ops).supplied fd).length +
      ((Sys.init.run ops).w.srv.outstanding.filter (fun t => t.fd = fd)).length =
    ((Sys.init.run ops).yielded fd).length := by
  exact (SysInv_history ops h).answers fd

end MicroHttp.C08
