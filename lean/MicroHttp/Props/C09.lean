/-
  C09 — no client can wedge the server or starve other clients.
-/
import MicroHttp.ServerSpec
namespace MicroHttp.C09
open MicroHttp

/-- Whatever the clients do — any admissible batch of events with ANY flags and ANY read / write
    results (garbage, oversized declarations, EOF, resets, EPIPE, zero-length writes, would-block) —
    the poll returns normally: it never fails and never panics; the only other outcome is the
    shutdown indication, and only if the kill switch is among the events. -/
theorem poll_returns (s : Srv) (h : SrvInv s) (evs : List Ev) (hev : EvsOK s evs) :
    (∃ reqs, (requests s evs).2.1 = .ok reqs) ∨
    ((requests s evs).2.1 = .aborted .shutdown ∧ Ev.kill ∈ evs) := by
  sorry

theorem poll_ok_without_kill (s : Srv) (h : SrvInv s) (evs : List Ev) (hev : EvsOK s evs)
    (hk : Ev.kill ∉ evs) : ∃ reqs, (requests s evs).2.1 = .ok reqs := by
  sorry

/-- No early return drops work: when the poll returns normally, every event of the batch was
    handled, the returned list is the concatenation of what each event yielded, in order, and the
    dead-connection sweep ran. -/
def yieldsOf : Srv → List Ev → List (Token × Request)
  | _, [] => []
  | s, ev :: evs => (handleEv s ev).2.1 ++ yieldsOf (handleEv s ev).1 evs

def stateAfter : Srv → List Ev → Srv
  | s, [] => s
  | s, ev :: evs => stateAfter (handleEv s ev).1 evs

theorem all_events_handled (s : Srv) (evs : List Ev) (reqs : List (Token × Request))
    (h : (requests s evs).2.1 = .ok reqs) :
    reqs = yieldsOf s evs ∧ (requests s evs).1 = (sweep (stateAfter s evs)).1 := by
  sorry

/-- A connection that can no longer be written to (hang-up, failed write, end of stream) is marked
    closed with nothing left to write … -/
theorem hangup_closes (s : Srv) (fd : Nat) (fl : EvFlags) (hh : fl.hup = true) (rd : Recv) (t : List Byte) (w : SinkStep)
    (c : Client) (hc : findClient s.conns fd = some c) :
    ∃ c', findClient (handleEv s (.client fd fl rd t w)).1.conns fd = some c' ∧
      c'.state = .closed ∧ pendingWrite c'.conn = false ∧ c'.inflight = c.inflight := by
  sorry

theorem failed_write_closes (c : Client) (w : SinkStep) (hw : w = .zero ∨ w = .fail)
    (hp : pendingWrite c.conn = true) (hI : Inv P0 c.conn) :
    (c.write w).1.state = .closed ∧ pendingWrite (c.write w).1.conn = false := by
  sorry

/-- … and is released by the first completed poll after the application has answered everything
    that was yielded from it (C10.reaped + closed_released_when_answered). Here: a closed
    connection with no unanswered request does not survive a sweep. -/
theorem closed_and_answered_is_swept (s : Srv) (hI : SrvInv s) (c : Client) (hc : c ∈ s.conns)
    (hcl : c.state = .closed) (h0 : c.inflight = 0) : c ∉ (sweep s).1.conns := by
  sorry

/-- Other clients are unaffected by a misbehaving one: an event of connection `fd₁` changes
    nothing about connection `fd₂` (its parser, queues, state, interest, in-flight count). -/
theorem others_unaffected (s : Srv) (fd₁ fd₂ : Nat) (hne : fd₁ ≠ fd₂) (fl : EvFlags) (rd : Recv) (t : List Byte) (w : SinkStep) :
    findClient (handleEv s (.client fd₁ fl rd t w)).1.conns fd₂ = findClient s.conns fd₂ := by
  sorry

/-- A write attempt with nothing pending (stale OUT interest) is harmless: no error, the
    connection goes back to waiting for input unless it is closed (defects F2/F4 of DESIGN.md §6). -/
theorem stale_out_is_harmless (c : Client) (w : SinkStep) (hp : pendingWrite c.conn = false) (hI : Inv P0 c.conn) :
    (c.write w).2 = [] ∧ (c.write w).1.conn = c.conn ∧
    (c.write w).1.state = (if c.state = .closed then .closed else .awaitingIn) := by
  sorry

end MicroHttp.C09
