/-
  C09 — no client can wedge the server or starve other clients.
-/
import MicroHttp.ServerSpec
import MicroHttp.Proofs.SrvPoll
namespace MicroHttp.C09
open MicroHttp

/-- Whatever the clients do — any admissible batch of events with ANY flags and ANY read / write
    results (garbage, oversized declarations, EOF, resets, EPIPE, zero-length writes, would-block) —
    the poll returns normally: it never fails and never panics; the only other outcome is the
    shutdown indication, and only if the kill switch is among the events. -/
theorem poll_returns (s : Srv) (h : SrvInv s) (evs : List Ev) (hev : EvsOK s evs) :
    (∃ reqs, (requests s evs).2.1 = .ok reqs) ∨
    ((requests s evs).2.1 = .aborted .shutdown ∧ Ev.kill ∈ evs) := by
  rcases requests_outcome s h evs hev with ⟨k, g⟩ | ⟨_, g⟩
  · exact Or.inr ⟨g, k⟩
  · exact Or.inl g

theorem poll_ok_without_kill (s : Srv) (h : SrvInv s) (evs : List Ev) (hev : EvsOK s evs)
    (hk : Ev.kill ∉ evs) : ∃ reqs, (requests s evs).2.1 = .ok reqs := by
  rcases requests_outcome s h evs hev with ⟨k, _⟩ | ⟨_, g⟩
  · exact absurd k hk
  · exact g

/-- No early return drops work: when the poll returns normally, every event of the batch was
    handled, the returned list is the concatenation of what each event yielded, in order, and the
    dead-connection sweep ran. -/
def yieldsOf : Srv → List Ev → List (Token × Request)
  | _, [] => []
  | s, ev :: evs => (handleEv s ev).2.1 ++ yieldsOf (handleEv s ev).1 evs

def stateAfter : Srv → List Ev → Srv
  | s, [] => s
  | s, ev :: evs => stateAfter (handleEv s ev).1 evs

theorem all_events_handled (s : Srv) (evs : List Ev) (reqs : List (Token × Request))
    (h : (requests s evs).2.1 = .ok reqs) :
    reqs = yieldsOf s evs ∧ (requests s evs).1 = (sweep (stateAfter s evs)).1 := by
  have gen : ∀ (evs : List Ev) (s : Srv) (acc : List (Token × Request)) (effs : List Effect),
      (runEvents s evs acc effs).2.2.2 = none →
      (runEvents s evs acc effs).2.1 = acc ++ yieldsOf s evs ∧ (runEvents s evs acc effs).1 = stateAfter s evs := by
    intro evs
    induction evs with
    | nil => intro s acc effs _; exact ⟨(List.append_nil acc).symm, rfl⟩
    | cons ev evs ih =>
      intro s acc effs hn
      cases ha : (handleEv s ev).2.2.2 with
      | some a => rw [runEvents_cons_abort s ev evs acc effs a ha] at hn; cases hn
      | none =>
        rw [runEvents_cons_ok s ev evs acc effs ha] at hn ⊢
        obtain ⟨g1, g2⟩ := ih _ _ _ hn
        rw [g1, g2, List.append_assoc]
        exact ⟨rfl, rfl⟩
  cases ha : (runEvents s evs [] []).2.2.2 with
  | some a => rw [requests_eq_aborted s evs a ha] at h; cases h
  | none =>
    obtain ⟨g1, g2⟩ := gen evs s [] [] ha
    rw [requests_eq_ok s evs ha] at h ⊢
    simp only [PollResult.ok.injEq] at h
    rw [← h, g1, g2]
    exact ⟨rfl, rfl⟩

/-- A connection that can no longer be written to (hang-up, failed write, end of stream) is marked
    closed with nothing left to write … -/
theorem hangup_closes (s : Srv) (fd : Nat) (fl : EvFlags) (hh : fl.hup = true) (rd : Recv) (t : List Byte) (w : SinkStep)
    (c : Client) (hc : findClient s.conns fd = some c) :
    ∃ c', findClient (handleEv s (.client fd fl rd t w)).1.conns fd = some c' ∧
      c'.state = .closed ∧ pendingWrite c'.conn = false ∧ c'.inflight = c.inflight := by
  have hcfd := (findClient_some hc).2
  subst hcfd
  rw [handleEv_hup s c.fd fl rd t w c hc hh]
  exact ⟨{ c with conn := clearWrite c.conn, state := .closed },
    findClient_replace_self s.conns { c with conn := clearWrite c.conn, state := .closed } c hc,
    rfl, pendingWrite_clearWrite c.conn, rfl⟩

theorem failed_write_closes (c : Client) (w : SinkStep) (hw : w = .zero ∨ w = .fail)
    (hp : pendingWrite c.conn = true) (hI : Inv P0 c.conn) :
    (c.write w).1.state = .closed ∧ pendingWrite (c.write w).1.conn = false := by
  have _ := hI
  obtain ⟨h1, h2⟩ := tryWrite_failed c.conn w hw hp
  rw [Client.write_eq, h1]
  exact ⟨rfl, h2⟩

/-- … and is released by the first completed poll after the application has answered everything
    that was yielded from it (C10.reaped + closed_released_when_answered). Here: a closed
    connection with no unanswered request does not survive a sweep. -/
theorem closed_and_answered_is_swept (s : Srv) (hI : SrvInv s) (c : Client) (hc : c ∈ s.conns)
    (hcl : c.state = .closed) (h0 : c.inflight = 0) : c ∉ (sweep s).1.conns := by
  intro hm
  have hnd := (List.mem_filter.mp hm).2
  have hnp := (hI.clients c hc).nopending (by rw [hcl]; intro e; cases e)
  simp [Client.isDone, hcl, hnp, h0] at hnd

/-- Other clients are unaffected by a misbehaving one: an event of connection `fd₁` changes
    nothing about connection `fd₂` (its parser, queues, state, interest, in-flight count). -/
theorem others_unaffected (s : Srv) (fd₁ fd₂ : Nat) (hne : fd₁ ≠ fd₂) (fl : EvFlags) (rd : Recv) (t : List Byte) (w : SinkStep) :
    findClient (handleEv s (.client fd₁ fl rd t w)).1.conns fd₂ = findClient s.conns fd₂ := by
  rcases handleEv_client_shape s fd₁ fl rd t w with h | ⟨c, c'', toks, _, hfd, _, h⟩
  · rw [h]
  · rw [h]
    exact findClient_replace_ne s.conns c'' fd₂ (by rw [hfd]; exact hne)

/-- A write attempt with nothing pending (stale OUT interest) is harmless: no error, the
    connection goes back to waiting for input unless it is closed (defects F2/F4 of DESIGN.md §6). -/
theorem stale_out_is_harmless (c : Client) (w : SinkStep) (hp : pendingWrite c.conn = false) (hI : Inv P0 c.conn) :
    (c.write w).2 = [] ∧ (c.write w).1.conn = c.conn ∧
    (c.write w).1.state = (if c.state = .closed then .closed else .awaitingIn) := by
  have _ := hI
  rw [Client.write_eq, tryWrite_nopending c.conn w hp]
  exact ⟨rfl, rfl, rfl⟩

end MicroHttp.C09
