/-
  C11 — a rejected request is never delivered later; parsing restarts clean after errors.
-/
import MicroHttp.ConnSpec
import MicroHttp.Server
import MicroHttp.Proofs.Restart
namespace MicroHttp.C11
open MicroHttp
variable {RL H : Type}

/-- two connections agree on everything the input side depends on -/
def ParserEq (c₁ c₂ : Conn RL H) : Prop :=
  c₁.state = c₂.state ∧ c₁.pending = c₂.pending ∧ c₁.win = c₂.win ∧ c₁.bodyVec = c₂.bodyVec ∧
  c₁.toRead = c₂.toRead ∧ c₁.files = c₂.files ∧ c₁.limit = c₂.limit

/-- After a parse error nothing of the rejected input is retained: the parser part of the
    connection equals that of a newly created connection with the same limit. -/
theorem reset_after_error (P : Params RL H) (c : Conn RL H) (inp : Recv) (c' : Conn RL H) (e : ReqErr)
    (h : tryRead P c inp = (c', .parseErr e)) : ParserEq c' (Conn.new c.limit) := by
  exact reset_after_error' P c inp c' e h

/-- What a read does depends only on the parser part: ANY two connections that agree on it (no
    invariant is needed: the input side commutes with replacing the output-side fields) report the
    same outcome, agree on it afterwards, and append the same new deliveries and the same new
    interim responses to whatever they had queued. -/
theorem read_depends_on_parser_only (P : Params RL H) (c₁ c₂ : Conn RL H)
    (h : ParserEq c₁ c₂) (inp : Recv) :
    (tryRead P c₁ inp).2 = (tryRead P c₂ inp).2 ∧
    ParserEq (tryRead P c₁ inp).1 (tryRead P c₂ inp).1 ∧
    ∃ dp dq, (tryRead P c₁ inp).1.parsed = c₁.parsed ++ dp ∧ (tryRead P c₂ inp).1.parsed = c₂.parsed ++ dp ∧
             (tryRead P c₁ inp).1.respQ = c₁.respQ ++ dq ∧ (tryRead P c₂ inp).1.respQ = c₂.respQ ++ dq := by
  exact read_depends_on_parser_only' P c₁ c₂ h inp

/-- run a list of reads, collecting outcomes -/
def runReads (P : Params RL H) : Conn RL H → List Recv → Conn RL H × List ReadOut
  | c, [] => (c, [])
  | c, i :: is =>
    let (c', o) := tryRead P c i
    let (c'', os) := runReads P c' is
    (c'', o :: os)

/-- C11: after a connection reported a parse error, every later sequence of reads (any bytes, any
    segmentation, any failed reads in between) is handled exactly as a new connection with the same
    configuration handles it: same outcomes (errors included), same delivered requests, same
    interim responses. -/
theorem after_error_like_new (P : Params RL H) (c : Conn RL H)
    (inp : Recv) (c' : Conn RL H) (e : ReqErr)
    (h : tryRead P c inp = (c', .parseErr e)) (inputs : List Recv) :
    (runReads P c' inputs).2 = (runReads P (Conn.new c.limit) inputs).2 ∧
    ∃ dp dq, (runReads P c' inputs).1.parsed = c'.parsed ++ dp ∧
             (runReads P (Conn.new c.limit : Conn RL H) inputs).1.parsed = dp ∧
             (runReads P c' inputs).1.respQ = c'.respQ ++ dq ∧
             (runReads P (Conn.new c.limit : Conn RL H) inputs).1.respQ = dq := by
  have heq : ∀ (is : List Recv) (c : Conn RL H), runReads P c is = runReads' P c is := by
    intro is
    induction is with
    | nil => intro c; rfl
    | cons i is ih => intro c; simp only [runReads, runReads', ih]
  simp only [heq]
  exact after_error_like_new' P c inp c' e h inputs

/-- The request that was being parsed when the error was raised is gone. -/
theorem rejected_request_dropped (P : Params RL H) (c : Conn RL H) (inp : Recv) (c' : Conn RL H) (e : ReqErr)
    (h : tryRead P c inp = (c', .parseErr e)) : c'.pending = none ∧ c'.win = [] ∧ c'.bodyVec = [] := by
  exact rejected_request_dropped' P c inp c' e h

/-- Server: a read that ends in a parse error yields nothing to the application (requests parsed
    earlier in the same read are discarded with the 400), leaves no parsed request behind, and the
    connection stays open with a fresh parser. -/
theorem server_yields_nothing_on_error (c : Client) (rd : Recv) (t : List Byte) (e : ReqErr)
    (h : (tryRead P0 c.conn rd).2 = .parseErr e) :
    (c.read rd t).2.1 = [] ∧ (c.read rd t).1.conn.parsed = [] ∧ (c.read rd t).1.state = .awaitingOut ∧
    ParserEq (c.read rd t).1.conn (Conn.new c.conn.limit) := by
  exact server_yields_nothing_on_error' c rd t e h

end MicroHttp.C11
