/-
  C17 — the router dispatches to exactly the handler registered for (method, prefix + path).
  In the model a handler is an identifier; `Routes.handle` applies the caller-supplied
  `handlerResp` to exactly the identifier `Routes.dispatch` returns (once, by construction) and to no other.
-/
import MicroHttp.Router
import MicroHttp.Proofs.RouterLemmas
namespace MicroHttp.C17
open MicroHttp

/-- a registration request: method, path, handler id -/
abbrev Reg := Method × List Byte × Nat

def registerAll (r : Routes) (regs : List Reg) : Routes :=
  regs.foldl (fun r reg => (r.addRoute reg.1 reg.2.1 reg.2.2).1) r

/-- The lookup key determines method and path (method names contain no ':'). -/
theorem routeKey_injective (m m' : Method) (pre path path' : List Byte)
    (h : routeKey m pre path = routeKey m' pre path') : m = m' ∧ path = path' := by
  have h' := (RouterLemmas.routeKey_eq_iff m m' pre path (pre ++ path')).1
    (by simpa [routeKey, List.append_assoc] using h)
  exact ⟨h'.1, List.append_cancel_left h'.2⟩

/-- After any sequence of registrations (duplicates included) on a new router, a request is
    dispatched to the FIRST handler registered for (request method, prefix ++ path = absolute path of
    the request URI), and to none if there is no such registration. -/
theorem dispatch_first_registered (sid pre : List Byte) (regs : List Reg) (req : Request) :
    (registerAll { serverId := sid, prefix_ := pre } regs).dispatch req =
      (regs.find? (fun reg => reg.1 = req.line.method ∧ pre ++ reg.2.1 = getAbsPath req.line.uri)).map (·.2.2) := by
  exact RouterLemmas.dispatch_registerAll sid pre regs req

/-- Registering an occupied (method, path) is refused with the key and changes nothing. -/
theorem addRoute_duplicate (r : Routes) (m : Method) (p : List Byte) (h h' : Nat)
    (hocc : lookupRoute r.routes (routeKey m r.prefix_ p) = some h) :
    r.addRoute m p h' = (r, .error (routeKey m r.prefix_ p)) := by
  exact RouterLemmas.addRoute_some r m p h' h hocc

/-- Registering a free (method, path) succeeds and makes exactly that key resolve to the handler. -/
theorem addRoute_fresh (r : Routes) (m : Method) (p : List Byte) (h : Nat)
    (hfree : lookupRoute r.routes (routeKey m r.prefix_ p) = none) :
    (r.addRoute m p h).2 = .ok () ∧
    lookupRoute (r.addRoute m p h).1.routes (routeKey m r.prefix_ p) = some h ∧
    ∀ k, k ≠ routeKey m r.prefix_ p → lookupRoute (r.addRoute m p h).1.routes k = lookupRoute r.routes k := by
  refine ⟨?_, ?_, ?_⟩
  · rw [RouterLemmas.addRoute_none r m p h hfree]
  · rw [RouterLemmas.addRoute_lookup, hfree]; simp
  · intro k hk
    rw [RouterLemmas.addRoute_lookup]
    cases lookupRoute r.routes k with
    | some x => rfl
    | none => simp [Ne.symm hk]

/-- The response is the dispatched handler's (or a 404 with HTTP/1.1 when there is none), stamped
    with the configured server identity and the JSON content type; nothing else is changed. -/
theorem handle_spec (r : Routes) (req : Request) (f : Nat → Response) :
    r.handle req f =
      { (match r.dispatch req with
         | some h => f h
         | none => Response.new .http11 .notFound) with server := r.serverId, contentType := .applicationJson } := by
  rfl

example : (registerAll { serverId := [], prefix_ := [0x2F, 0x70] }
      [(.get, [0x2F, 0x61], 0), (.put, [0x2F, 0x61], 1), (.get, [0x2F, 0x61], 2)]).dispatch
        ⟨⟨.get, [0x2F, 0x70, 0x2F, 0x61], .http11⟩, Headers.default, none, []⟩ = some 0 := by decide

end MicroHttp.C17
