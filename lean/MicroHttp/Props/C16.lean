/-
  C16 — token and URI functions are exact, case-sensitive and round-trip.
  Property theorems only (statements + proofs from core lemmas) and non-vacuity examples.
-/
import MicroHttp.Tokens
namespace MicroHttp.C16
open MicroHttp

/-- Method parsing accepts exactly the canonical spelling of the value it returns. -/
theorem method_tryFrom_iff (bs : List Byte) (m : Method) :
    Method.tryFrom bs = some m ↔ bs = m.raw := by
  constructor
  · intro h
    unfold Method.tryFrom at h
    split at h
    · cases h; assumption
    · split at h
      · cases h; assumption
      · split at h
        · cases h; assumption
        · cases h
  · intro h; subst h; cases m <;> decide

/-- … and rejects everything else. -/
theorem method_tryFrom_none_iff (bs : List Byte) :
    Method.tryFrom bs = none ↔ ∀ m : Method, bs ≠ m.raw := by
  constructor
  · intro h m hm
    have := (method_tryFrom_iff bs m).mpr hm
    rw [h] at this; cases this
  · intro h
    cases hm : Method.tryFrom bs with
    | none => rfl
    | some m => exact absurd ((method_tryFrom_iff bs m).mp hm) (h m)

theorem method_roundtrip (m : Method) : Method.tryFrom m.raw = some m :=
  (method_tryFrom_iff _ _).mpr rfl

theorem version_tryFrom_iff (bs : List Byte) (v : Version) :
    Version.tryFrom bs = some v ↔ bs = v.raw := by
  constructor
  · intro h
    unfold Version.tryFrom at h
    split at h
    · cases h; assumption
    · split at h
      · cases h; assumption
      · cases h
  · intro h; subst h; cases v <;> decide

theorem version_tryFrom_none_iff (bs : List Byte) :
    Version.tryFrom bs = none ↔ ∀ v : Version, bs ≠ v.raw := by
  constructor
  · intro h v hv
    have := (version_tryFrom_iff bs v).mpr hv
    rw [h] at this; cases this
  · intro h
    cases hv : Version.tryFrom bs with
    | none => rfl
    | some v => exact absurd ((version_tryFrom_iff bs v).mp hv) (h v)

theorem version_roundtrip (v : Version) : Version.tryFrom v.raw = some v :=
  (version_tryFrom_iff _ _).mpr rfl

/-- Media types: exactly the canonical spellings modulo surrounding whitespace, on non-empty UTF-8 input. -/
theorem media_tryFrom_iff (bs : List Byte) (m : MediaType) :
    MediaType.tryFrom bs = some m ↔ (bs ≠ [] ∧ isUtf8 bs = true ∧ trim bs = m.raw) := by
  unfold MediaType.tryFrom
  constructor
  · intro h
    split at h
    · cases h
    · rename_i hne
      split at h
      · cases h
      · rename_i hu
        have hne' : bs ≠ [] := by intro hh; subst hh; simp at hne
        have hu' : isUtf8 bs = true := by simpa using hu
        simp only at h
        split at h
        · cases h; exact ⟨hne', hu', by assumption⟩
        · split at h
          · cases h; exact ⟨hne', hu', by assumption⟩
          · cases h
  · rintro ⟨hne, hu, ht⟩
    have h1 : bs.isEmpty = false := by cases bs <;> simp_all
    simp only [h1, hu, ht]
    cases m <;> decide

theorem media_roundtrip (m : MediaType) : MediaType.tryFrom m.raw = some m := by
  cases m <;> decide

/-- Every status code serializes to its own three-digit number … -/
theorem status_raw_eq_decimal (s : StatusCode) : s.raw = decimal s.num ∧ s.raw.length = 3 := by
  cases s <;> decide

/-- … and the numbers are pairwise distinct. -/
theorem status_raw_injective (s t : StatusCode) (h : s.raw = t.raw) : s = t := by
  cases s <;> cases t <;> first | rfl | (exact absurd h (by decide))

/-- URI starting with `/`: the absolute path is the URI itself. -/
theorem absPath_origin_form (rest : List Byte) : getAbsPath (SLASH :: rest) = SLASH :: rest := by
  simp [getAbsPath, HTTP_SCHEME_PREFIX, SLASH, List.isPrefixOf]

/-- `http://authority/...`: the part from the first `/` after the scheme (empty if there is none). -/
theorem absPath_absolute_form (rest : List Byte) :
    getAbsPath (HTTP_SCHEME_PREFIX ++ rest) = fromFirstSlash rest := by
  unfold getAbsPath
  have h1 : HTTP_SCHEME_PREFIX.isPrefixOf (HTTP_SCHEME_PREFIX ++ rest) = true := by
    simp [List.isPrefixOf_iff_prefix]
  have h2 : (HTTP_SCHEME_PREFIX ++ rest).drop HTTP_SCHEME_PREFIX.length = rest := by simp
  simp only [h1, h2, if_true]
  cases rest with
  | nil => simp [fromFirstSlash]
  | cons b bs => simp

/-- Every other URI has the empty absolute path. -/
theorem absPath_other (uri : List Byte)
    (h1 : ¬ HTTP_SCHEME_PREFIX <+: uri) (h2 : uri.head? ≠ some SLASH) : getAbsPath uri = [] := by
  unfold getAbsPath
  have : HTTP_SCHEME_PREFIX.isPrefixOf uri = false := by
    rw [Bool.eq_false_iff]; intro h; exact h1 (List.isPrefixOf_iff_prefix.mp h)
  simp only [this]
  cases uri with
  | nil => simp [List.isPrefixOf]
  | cons b bs =>
    have hb : b ≠ SLASH := by intro hh; subst hh; simp at h2
    simp [List.isPrefixOf, hb.symm]

theorem fromFirstSlash_shape (l : List Byte) :
    fromFirstSlash l = [] ∨ (∃ t, fromFirstSlash l = SLASH :: t) ∧ fromFirstSlash l <:+ l := by
  induction l with
  | nil => left; rfl
  | cons b bs ih =>
    unfold fromFirstSlash
    split
    · rename_i hb
      right
      have : b = SLASH := by simpa using hb
      subst this
      exact ⟨⟨bs, rfl⟩, List.suffix_refl _⟩
    · rcases ih with h | ⟨h1, h2⟩
      · left; exact h
      · right; exact ⟨h1, List.IsSuffix.trans h2 (List.suffix_cons b bs)⟩

/-- Hence the absolute path is always empty or a `/`-prefixed suffix of the URI. -/
theorem absPath_shape (uri : List Byte) :
    getAbsPath uri = [] ∨ (∃ t, getAbsPath uri = SLASH :: t) ∧ getAbsPath uri <:+ uri := by
  unfold getAbsPath
  split
  · rename_i hp
    simp only
    split
    · left; rfl
    · rcases fromFirstSlash_shape (uri.drop HTTP_SCHEME_PREFIX.length) with h | ⟨h1, h2⟩
      · left; exact h
      · right; exact ⟨h1, List.IsSuffix.trans h2 (List.drop_suffix _ _)⟩
  · split
    · rename_i hs
      right
      cases uri with
      | nil => simp [List.isPrefixOf] at hs
      | cons b bs =>
        have : b = SLASH := by
          simp [List.isPrefixOf] at hs; exact hs.symm
        subst this
        exact ⟨⟨bs, rfl⟩, List.suffix_refl _⟩
    · left; rfl

/-! non-vacuity: the hypotheses are met by concrete, non-trivial inputs -/
example : getAbsPath (HTTP_SCHEME_PREFIX ++ [0x68, SLASH, 0x61]) = [SLASH, 0x61] := by decide
example : ¬ HTTP_SCHEME_PREFIX <+: [0x78] ∧ ([0x78] : List Byte).head? ≠ some SLASH := by decide
example : Method.tryFrom [0x67, 0x65, 0x74] = none := by decide   -- "get" is rejected
example : (trim [0x20, 0x74, 0x65, 0x78, 0x74, 0x2F, 0x70, 0x6C, 0x61, 0x69, 0x6E, 0x09] = MediaType.plainText.raw) := by decide

end MicroHttp.C16
