/-
  C18 (continued) — "before it is signalled, its presence changes nothing about how clients are served",
  over WHOLE histories of public calls.

  `C18.transparent` compares one poll with and without a registered kill switch. Here: for every history of
  public calls in which no poll's batch contains the kill event (it has not been signalled: E6, E8), a server
  with a kill switch and one without go through the same states (up to the flag itself) and EVERY call returns
  the same result and has the same effects on the outside (bytes written, interest changes, connections
  accepted, refused and dropped). No invariant or admissibility hypothesis is needed.
-/
import MicroHttp.ServerSpec
import MicroHttp.Proofs.SrvPoll
import MicroHttp.Props.C10History
import MicroHttp.Props.C18
namespace MicroHttp.C18
open MicroHttp MicroHttp.C10

/-- everything a public call lets the outside see: its result and its effects -/
inductive OpOut
  | poll (r : PollResult) (effs : List Effect)
  | respond (r : RespondResult) (effs : List Effect)
  | respondMany (r : RespondResult)
  | flush (effs : List Effect)
  | silent

def outS (s : Srv) : SOp → OpOut
  | .poll evs => .poll (requests s evs).2.1 (requests s evs).2.2
  | .respond tok r => .respond (respond s tok r).2.1 (respond s tok r).2.2
  | .respondMany l => .respondMany (respondMany s l).2
  | .flush script => .flush (flush s script).2
  | .setLimit _ => .silent
  | .addKill => .silent

/-- the kill switch has not been signalled (no batch contains its event) and is not being registered -/
def QuietOp : SOp → Prop
  | .poll evs => Ev.kill ∉ evs
  | .addKill => False
  | _ => True

theorem respond_setKill (s : Srv) (b : Bool) (tok : Token) (r : Response) :
    respond { s with hasKill := b } tok r = ({ (respond s tok r).1 with hasKill := b }, (respond s tok r).2) := by
  unfold respond
  simp only
  repeat' split
  all_goals rfl

theorem respondMany_setKill : ∀ (l : List (Token × Response)) (s : Srv) (b : Bool),
    respondMany { s with hasKill := b } l = ({ (respondMany s l).1 with hasKill := b }, (respondMany s l).2) := by
  intro l
  induction l with
  | nil => intro s b; rfl
  | cons x rest ih =>
    intro s b
    obtain ⟨tok, r⟩ := x
    rw [respondMany, respondMany, respond_setKill]
    cases hr : respond s tok r with
    | mk s' rest' =>
      obtain ⟨res, eff⟩ := rest'
      cases res with
      | ok => exact ih s' b
      | underflow => rfl

/-- one call: same result, same effects, same next state up to the flag -/
theorem step_setKill (s : Srv) (b : Bool) (op : SOp) (hq : QuietOp op) :
    stepS { s with hasKill := b } op = { stepS s op with hasKill := b } ∧
    outS { s with hasKill := b } op = outS s op := by
  cases op with
  | poll evs =>
    have := requests_setKill s evs hq b
    exact ⟨by show (requests _ evs).1 = _; rw [this]; rfl, by show OpOut.poll _ _ = OpOut.poll _ _; rw [this]⟩
  | respond tok r =>
    have := respond_setKill s b tok r
    exact ⟨by show (respond _ tok r).1 = _; rw [this]; rfl, by show OpOut.respond _ _ = OpOut.respond _ _; rw [this]⟩
  | respondMany l =>
    have := respondMany_setKill l s b
    exact ⟨by show (respondMany _ l).1 = _; rw [this]; rfl, by show OpOut.respondMany _ = OpOut.respondMany _; rw [this]⟩
  | flush script => exact ⟨rfl, rfl⟩
  | setLimit n => exact ⟨rfl, rfl⟩
  | addKill => exact absurd hq id

theorem run_setKill : ∀ (ops : List SOp) (s : Srv) (b : Bool), (∀ op ∈ ops, QuietOp op) →
    run { s with hasKill := b } ops = { run s ops with hasKill := b } := by
  intro ops
  induction ops with
  | nil => intro s b _; rfl
  | cons op ops ih =>
    intro s b hq
    show run (stepS { s with hasKill := b } op) ops = _
    rw [(step_setKill s b op (hq op (List.mem_cons_self ..))).1]
    exact ih (stepS s op) b (fun o ho => hq o (List.mem_cons_of_mem _ ho))

/-- **Transparency over histories**: as long as the kill switch has not been signalled, EVERY call of the
    history returns the same result with the same effects whether or not a kill switch is registered. -/
theorem transparent_history (s : Srv) (b : Bool) (pre : List SOp) (op : SOp)
    (hpre : ∀ o ∈ pre, QuietOp o) (hop : QuietOp op) :
    outS (run { s with hasKill := b } pre) op = outS (run s pre) op := by
  rw [run_setKill pre s b hpre]
  exact (step_setKill (run s pre) b op hop).2

/-- non-vacuity / the hypothesis matters: with the kill event in the batch the two servers DO differ
    (the one without a kill switch has no such event to see — here the model reports shutdown either way, the
    difference is admissibility, `EvOK`), and a quiet history with a client request exists. -/
example :
    let getReq : List Byte := [0x47, 0x45, 0x54, 0x20, 0x2F, 0x20, 0x48, 0x54, 0x54, 0x50, 0x2F, 0x31, 0x2E, 0x31, 0x0D, 0x0A, 0x0D, 0x0A]
    let pre : List SOp := [.poll [.listener 7], .poll [.client 7 { inn := true } (.data getReq []) [] .fail]]
    (∀ o ∈ pre, QuietOp o) ∧ QuietOp (.respond ⟨7, 0⟩ (Response.new .http11 .ok)) ∧
    (run { Srv.new with hasKill := true } pre).outstanding = [⟨7, 0⟩] ∧
    ¬ EvOK Srv.new .kill ∧ EvOK { Srv.new with hasKill := true } .kill := by
  refine ⟨?_, trivial, by decide, (fun h => by cases h), rfl⟩
  intro o ho
  simp only [List.mem_cons, List.not_mem_nil, or_false] at ho
  rcases ho with rfl | rfl <;> (show Ev.kill ∉ _; simp)

end MicroHttp.C18
