/-
  C04 — payload and line-length limits are enforced exactly and before buffering.
  Stated on the byte-at-a-time specification (to which every read schedule of the connection is
  tied by C01.tryRead_refines / sched_refines) and on the server model.
-/
import MicroHttp.ConnSpec
import MicroHttp.Server
import MicroHttp.Proofs.Limits
namespace MicroHttp.C04
open MicroHttp
variable {RL H : Type}

/-- At the blank line that ends a header block, the request is rejected iff its declared length
    exceeds the limit, and then with the size-limit error reporting (limit, declared). -/
theorem payload_iff (P : Params RL H) (L : Nat) (r : Req RL H) :
    (∃ e, processLine P L (.hdrs r) [] = .error e) ↔ P.clen r.headers > L := by
  exact payload_iff' P L r

theorem payload_error (P : Params RL H) (L : Nat) (r : Req RL H) (h : P.clen r.headers > L) :
    processLine P L (.hdrs r) [] = .error (.sizeLimitExceeded L (P.clen r.headers)) := by
  exact payload_error' P L r h

/-- … as soon as the header block is complete: the two bytes CR LF of the blank line suffice, no body
    byte is needed (and none is looked at: `feed` stops at the error). -/
theorem payload_rejected_early (P : Params RL H) (hB : 1 < P.B) (L : Nat) (r : Req RL H)
    (h : P.clen r.headers > L) (rest : List Byte) :
    feed P L ⟨.hdrs r, []⟩ (CRLF ++ rest) = ([], .error (.sizeLimitExceeded L (P.clen r.headers))) := by
  exact payload_rejected_early' P hB L r h rest

/-- A phase is consistent with limit `L`: a body being read belongs to a request that declared
    exactly got + need bytes, at most `L`. -/
def PhaseOK (P : Params RL H) (L : Nat) : Phase RL H → Prop
  | .body r got need => got.length + need = P.clen r.headers ∧ 0 < need ∧ P.clen r.headers ≤ L ∧ r.body.isSome
  | .hdrs r => r.body = none
  | .line => True

/-- what a delivered request's body must look like -/
def BodyOK (P : Params RL H) (L : Nat) (r : Req RL H) : Prop :=
  (P.clen r.headers = 0 ∧ r.body = none) ∨
  (∃ b, r.body = some b ∧ b.length = P.clen r.headers ∧ 0 < b.length ∧ b.length ≤ L)

/-- A delivered body never exceeds the limit or its declared length (it has exactly the declared
    length), for every byte stream and from every consistent state. -/
theorem body_bound (P : Params RL H) (L : Nat) (a : Abs RL H) (ha : PhaseOK P L a.phase) (bs : List Byte)
    (outs : List (Out RL H)) (res : Except ReqErr (Abs RL H)) (hf : feed P L a bs = (outs, res)) :
    (∀ r ∈ delivers outs, BodyOK P L r) ∧ (∀ a', res = .ok a' → PhaseOK P L a'.phase) := by
  exact body_bound' P L a ha bs outs res hf

/-- A line of at most B bytes including its CR LF is processed as exactly that line … -/
theorem line_within (P : Params RL H) (L : Nat) (ph : Phase RL H) (hph : ∀ r g n, ph ≠ .body r g n)
    (l rest : List Byte) (hl : find CRLF l = none) (hlen : l.length + 2 ≤ P.B) :
    feed P L ⟨ph, []⟩ (l ++ CRLF ++ rest) =
      match processLine P L ph l with
      | .error e => ([], .error e)
      | .ok (a', o) => let (os, r) := feed P L a' rest; (o ++ os, r) := by
  exact line_within' P L ph hph l rest hl hlen

/-- … and a longer one is rejected for its length (request line: `InvalidRequest`; header line:
    the header size error), whatever follows. -/
theorem line_too_long (P : Params RL H) (hB : 0 < P.B) (L : Nat) (ph : Phase RL H)
    (hph : ∀ r g n, ph ≠ .body r g n)
    (l rest : List Byte) (hl : find CRLF l = none) (hlen : l.length + 2 > P.B) :
    feed P L ⟨ph, []⟩ (l ++ CRLF ++ rest) = ([], .error (tooLong P ph ((l ++ CRLF).take P.B))) := by
  exact line_too_long' P hB L ph hph l rest hl hlen

/-- The server gives every accepted connection the limit configured at that moment. -/
theorem server_limit (s : Srv) (newFd : Nat) (hcap : s.conns.length ≠ MAX_CONNECTIONS) :
    ∃ c, findClient (handleEv s (.listener newFd)).1.conns newFd = some c ∧ c.conn.limit = s.limit := by
  exact server_limit' s newFd hcap

/-- The 400 body reports both numbers. -/
theorem bad_request_reports (L n : Nat) :
    decimal n <:+: badRequestBody (.sizeLimitExceeded L n) ∧ decimal L <:+: badRequestBody (.sizeLimitExceeded L n) := by
  exact bad_request_reports' L n

example : ∃ e, processLine P0 5 (.hdrs ⟨⟨.put, [0x2F], .http11⟩, { contentLength := 6 }, none, []⟩) [] = .error e :=
  ⟨_, rfl⟩

end MicroHttp.C04
