/-
  C13 — 100 Continue is sent exactly when asked for and a body is awaited.
-/
import MicroHttp.ConnSpec
import MicroHttp.Server
import MicroHttp.Proofs.Continue
namespace MicroHttp.C13
open MicroHttp
variable {RL H : Type}

/-- At the end of a header block the automaton emits the interim response iff the request asks
    for it and declares a non-zero length within the limit — exactly one, carrying the request's
    version (`P.contOf r.line`). -/
theorem cont_iff (P : Params RL H) (L : Nat) (r : Req RL H) (a : Abs RL H) (outs : List (Out RL H))
    (h : processLine P L (.hdrs r) [] = .ok (a, outs)) :
    conts outs =
      if P.expect r.headers = true ∧ 0 < P.clen r.headers ∧ P.clen r.headers ≤ L
      then [P.contOf r.line] else [] := by
  exact cont_iff' P L r a outs h

/-- Nothing else ever emits one: not a request line, not a header line, not a body byte. -/
theorem cont_only_at_end_of_headers (P : Params RL H) (L : Nat) (ph : Phase RL H) (l : List Byte)
    (a : Abs RL H) (outs : List (Out RL H)) (h : processLine P L ph l = .ok (a, outs))
    (hnot : ∀ r, ¬ (ph = .hdrs r ∧ l = [])) : conts outs = [] := by
  exact cont_only_at_end_of_headers' P L ph l a outs h hnot

theorem body_byte_no_cont (P : Params RL H) (L : Nat) (r : Req RL H) (got : List Byte) (need : Nat) (acc : List Byte)
    (b : Byte) (a : Abs RL H) (outs : List (Out RL H))
    (h : feedByte P L ⟨.body r got need, acc⟩ b = .ok (a, outs)) : conts outs = [] := by
  exact body_byte_no_cont' P L r got need acc b a outs h

/-- It is queued before any body byte is required: the blank line alone produces it, and the
    automaton is then waiting for the first body byte. -/
theorem cont_before_body (P : Params RL H) (hB : 1 < P.B) (L : Nat) (r : Req RL H)
    (he : P.expect r.headers = true) (h0 : 0 < P.clen r.headers) (hL : P.clen r.headers ≤ L) :
    feed P L ⟨.hdrs r, []⟩ CRLF =
      ([.cont (P.contOf r.line)], .ok ⟨.body { r with body := some [] } [] (P.clen r.headers), []⟩) := by
  exact cont_before_body' P hB L r he h0 hL

/-- The interim response of the real instance: `100` with the request's version, and no
    Content-Length (so it is self-delimiting by its blank line). -/
theorem cont_response (rl : RequestLine) :
    (P0.contOf rl).status = .continue_ ∧ (P0.contOf rl).version = rl.version ∧
    (P0.contOf rl).contentLength = none ∧ (P0.contOf rl).body = none := by
  exact cont_response' rl

/-- Server: after a read that leaves something to write (the interim response, a 400, a 500) the
    connection waits for writability, so the client receives it without sending anything more. -/
theorem server_switches_to_out (c : Client) (rd : Recv) (t : List Byte) (c' : Client) (reqs : List Request)
    (h : c.read rd t = (c', reqs, none)) (hpw : pendingWrite c'.conn = true) (hc : c'.state ≠ .closed) :
    c'.state = .awaitingOut := by
  exact server_switches_to_out' c rd t c' reqs h hpw hc

end MicroHttp.C13
