/-
  C01 — delivered requests depend only on the byte stream, not on how reads split it.
  Statements (proofs by reference to MicroHttp/Proofs/*).
-/
import MicroHttp.ConnSpec
import MicroHttp.Proofs.Sched
namespace MicroHttp.C01
open MicroHttp
variable {RL H : Type}

/-- A read that fails (would-block, interrupted, reset, …) changes nothing. -/
theorem tryRead_err (P : Params RL H) (c : Conn RL H) (hI : Inv P c) (e : Nat) :
    tryRead P c (.err e) = (c, .streamErr e) := by
  exact tryRead_err' P c hI e

/-- End of stream: reported as closed; descriptors that came with it stay with the connection. -/
theorem tryRead_eof (P : Params RL H) (c : Conn RL H) (hI : Inv P c) (fds : List Nat) :
    tryRead P c (.data [] fds) = ({ c with files := c.files ++ fds }, .closed) := by
  exact tryRead_eof' P c hI fds

/-- One `try_read` = running the byte-at-a-time automaton over exactly the bytes it took:
    new deliveries and queued 100-continues, in order, are the automaton's outputs; `Ok` iff the
    automaton is in the state the connection now represents; `ParseError e` iff the automaton stops
    with `e` (after the same outputs), and then the parser is back in its initial state. -/
theorem tryRead_refines (P : Params RL H) (hP : P.WF) (c : Conn RL H) (hI : Inv P c)
    (chunk : List Byte) (fds : List Nat) (hne : chunk ≠ [])
    (c' : Conn RL H) (out : ReadOut) (h : tryRead P c (.data chunk fds) = (c', out))
    (outs : List (Out RL H)) (r : Except ReqErr (Abs RL H))
    (hf : feed P c.limit (absOf c) (chunk.take (P.B - c.win.length)) = (outs, r)) :
    c'.parsed = c.parsed ++ attach (c.files ++ fds) (delivers outs) ∧
    c'.respQ = c.respQ ++ conts outs ∧ c'.respBuf = c.respBuf ∧ c'.limit = c.limit ∧ Inv P c' ∧
    (match r with
     | .ok a => out = .ok ∧ absOf c' = a ∧
                c'.files = (if delivers outs = [] then c.files ++ fds else [])
     | .error e => out = .parseErr e ∧ ParserFresh c') := by
  exact tryRead_refines' P hP c hI chunk fds hne c' out h outs r hf

/-- Any read schedule over any byte stream, from a new connection: what has been delivered and
    queued is what the automaton outputs on the consumed prefix, and the reported error is the
    automaton's. -/
theorem sched_refines (P : Params RL H) (hP : P.WF) (L : Nat) (stream : List Byte) (sched : List Step)
    (c' : Conn RL H) (rest : List Byte) (err : Option ReqErr)
    (h : runSched P (Conn.new L) stream sched = (c', rest, err)) :
    rest <:+ stream ∧
    ∃ outs r, feed P L Abs.fresh (consumed stream rest) = (outs, r) ∧
      c'.parsed = delivers outs ∧ c'.respQ = conts outs ∧
      (match err with
       | some e => r = .error e
       | none => r = .ok (absOf c') ∧ Inv P c') := by
  exact sched_refines' P hP L stream sched c' rest err h

/-- The first error and everything delivered before it are determined by the stream alone;
    so is everything delivered when the whole stream was read. -/
theorem stream_determines (P : Params RL H) (hP : P.WF) (L : Nat) (stream : List Byte) (sched : List Step)
    (c' : Conn RL H) (rest : List Byte) (err : Option ReqErr)
    (h : runSched P (Conn.new L) stream sched = (c', rest, err)) :
    (∀ e, err = some e → ∃ outs, feed P L Abs.fresh stream = (outs, .error e) ∧
        c'.parsed = delivers outs ∧ c'.respQ = conts outs) ∧
    (err = none → rest = [] → ∃ outs, feed P L Abs.fresh stream = (outs, .ok (absOf c')) ∧
        c'.parsed = delivers outs ∧ c'.respQ = conts outs) := by
  exact stream_determines' P hP L stream sched c' rest err h

/-- C01: two read schedules (any cut positions, any placement of failed/empty reads) that each
    either read the whole stream or reach an error deliver the same requests (all fields, same
    order, each once), queue the same interim responses and report the same first error. -/
theorem schedule_independent (P : Params RL H) (hP : P.WF) (L : Nat) (stream : List Byte)
    (s₁ s₂ : List Step) (c₁ c₂ : Conn RL H) (r₁ r₂ : List Byte) (e₁ e₂ : Option ReqErr)
    (h₁ : runSched P (Conn.new L) stream s₁ = (c₁, r₁, e₁))
    (h₂ : runSched P (Conn.new L) stream s₂ = (c₂, r₂, e₂))
    (d₁ : e₁.isSome ∨ r₁ = []) (d₂ : e₂.isSome ∨ r₂ = []) :
    c₁.parsed = c₂.parsed ∧ c₁.respQ = c₂.respQ ∧ e₁ = e₂ := by
  exact schedule_independent' P hP L stream s₁ s₂ c₁ c₂ r₁ r₂ e₁ e₂ h₁ h₂ d₁ d₂

/-- Segmentation independence of the specification itself. -/
theorem feed_append (P : Params RL H) (L : Nat) (a : Abs RL H) (xs ys : List Byte) :
    feed P L a (xs ++ ys) =
      match feed P L a xs with
      | (o, .error e) => (o, .error e)
      | (o, .ok a') => let (o', r) := feed P L a' ys; (o ++ o', r) := by
  exact MicroHttp.feed_append P L a xs ys

end MicroHttp.C01
