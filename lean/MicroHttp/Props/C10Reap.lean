/-
  C10 (continued) — reaping and refusal at EVERY poll of EVERY admissible history.

  `C10.reaped` / `closed_released_when_answered` / `refuse_at_capacity` are statements about one poll (one
  event) from a state with the invariant; lifted here through `C10.history_inv` to every point of every
  admissible history of public calls, of any length and in any order.
-/
import MicroHttp.ServerSpec
import MicroHttp.Props.C10
import MicroHttp.Props.C10History
import MicroHttp.Props.C18History
namespace MicroHttp.C10
open MicroHttp

/-- After every completed poll of every admissible history: no connection that is done (closed, nothing to
    write, nothing in flight) is still held, and a connection that is closed and still held has an
    unanswered request — the only thing that keeps a dead connection's slot. -/
theorem reaped_throughout (s : Srv) (h : SrvInv s) (pre : List SOp) (evs : List Ev) (post : List SOp)
    (hh : HistOK s (pre ++ .poll evs :: post)) (reqs : List (Token × Request))
    (hok : (requests (run s pre) evs).2.1 = .ok reqs) :
    ∀ c ∈ (run s (pre ++ [.poll evs])).conns, c.isDone = false ∧ (c.state = .closed → 0 < c.inflight) := by
  obtain ⟨hpre, hop⟩ := C18.histOK_split pre (.poll evs) post s hh
  have hinv := history_inv pre s h hpre
  have e : run s (pre ++ [.poll evs]) = (requests (run s pre) evs).1 := by
    unfold run; rw [List.foldl_append]; rfl
  rw [e]
  intro c hc
  exact ⟨reaped _ evs reqs hok c hc, closed_released_when_answered _ hinv evs hop reqs hok c hc⟩

/-- At every point of every admissible history at which the server holds 10 connections, a connecting client
    is refused with the fixed 503 and nothing else changes; and it never holds more than 10. -/
theorem refused_throughout (s : Srv) (h : SrvInv s) (ops : List SOp) (hh : HistOK s ops) (newFd : Nat) :
    (run s ops).conns.length ≤ MAX_CONNECTIONS ∧
    ((run s ops).conns.length = MAX_CONNECTIONS →
      handleEv (run s ops) (.listener newFd) = (run s ops, [], [.refused newFd], none)) :=
  ⟨(history_inv ops s h hh).cap, refuse_at_capacity (run s ops) newFd⟩

/-- non-vacuity: a client connects and hangs up without sending anything; the next poll completes and the
    history is admissible — the connection is gone afterwards -/
example :
    let pre : List SOp := [.poll [.listener 7]]
    let evs : List Ev := [.client 7 { inn := true, hup := true } (.data [] []) [] .fail]
    HistOK Srv.new (pre ++ .poll evs :: []) ∧ (requests (run Srv.new pre) evs).2.1 = .ok [] ∧
    (run Srv.new (pre ++ [.poll evs])).conns = [] := by
  refine ⟨⟨⟨?_, fun _ => trivial⟩, ⟨⟨⟨_, rfl, fun _ => rfl, fun h => by cases h⟩, fun _ => trivial⟩, trivial⟩⟩, by rfl, by decide⟩
  show (7 : Nat) ∉ Srv.fds Srv.new
  decide

end MicroHttp.C10
