/-
  C15 — header rules: case-insensitive names, trimmed values, tolerant vs fatal faults.
-/
import MicroHttp.Headers
import MicroHttp.Proofs.HeaderLemmas
import MicroHttp.Proofs.Utf8Lemmas
import MicroHttp.Proofs.TrimLemmas
namespace MicroHttp.C15
open MicroHttp

/-- a header line `name ":" value` (name without a colon) -/
def mkLine (k v : List Byte) : List Byte := k ++ [COLON] ++ v

def noColon (k : List Byte) : Bool := !k.contains COLON

/-- Recognised names are matched case-insensitively: two names that differ only in ASCII letter
    case are recognised alike. -/
theorem name_case_insensitive (n n' : List Byte) (h : asciiLower n = asciiLower n') :
    Header.tryFrom n = Header.tryFrom n' := by
  exact Utf8Lemmas.name_case_insensitive n n' h

/-- every canonical name is recognised, in any letter case -/
theorem name_recognised (hd : Header) (n : List Byte) (h : asciiLower n = asciiLower hd.raw) :
    Header.tryFrom n = some hd := by
  exact Utf8Lemmas.name_recognised hd n h

/-- SP / HTAB padding around a name or value is ignored by `trim`. -/
theorem trim_padding (pre post x : List Byte)
    (hpre : ∀ b ∈ pre, b = SP ∨ b = 0x09) (hpost : ∀ b ∈ post, b = SP ∨ b = 0x09) :
    trim (pre ++ x ++ post) = trim x := by
  exact TrimLemmas.trim_padding pre post x hpre hpost

/-- The split of a line at its first colon. -/
theorem splitOnce_mkLine (k v : List Byte) (hk : noColon k = true) :
    splitOnce COLON (mkLine k v) = (k, some v) := by
  exact HeaderLemmas.splitOnce_mkLine k v hk

/-- A line without a colon is fatal (`InvalidFormat` carrying the line). -/
theorem no_colon_fatal (h : Headers) (line : List Byte) (hu : isUtf8 line = true) (hc : noColon line = true) :
    h.applyLine line = .error (.headerError (.invalidFormat line)) := by
  exact HeaderLemmas.no_colon_fatal h line hu hc

/-- Non-UTF-8 bytes anywhere in the line are fatal. -/
theorem non_utf8_fatal (h : Headers) (line : List Byte) (hu : isUtf8 line = false) :
    ∃ e, h.applyLine line = .error (.headerError (.invalidUtf8 e)) := by
  exact HeaderLemmas.non_utf8_fatal h line hu

/-- Content-Length: the value must be an unsigned 32-bit decimal after trimming; then it replaces
    the previous value (so the last acceptable occurrence wins); otherwise the line is fatal. -/
theorem content_length_rule (h : Headers) (k v : List Byte) (hu : isUtf8 (mkLine k v) = true)
    (hk : noColon k = true) (hn : Header.tryFrom k = some .contentLength) :
    h.applyLine (mkLine k v) =
      match parseU32 (trim v) with
      | some n => .ok { h with contentLength := n }
      | none => .error (.headerError (.invalidValue k v)) := by
  exact HeaderLemmas.content_length_rule h _ k v hu (HeaderLemmas.splitOnce_mkLine k v hk) hn

/-- Accept: a supported media type replaces the previous one; anything else is ignored. -/
theorem accept_rule (h : Headers) (k v : List Byte) (hu : isUtf8 (mkLine k v) = true)
    (hk : noColon k = true) (hn : Header.tryFrom k = some .accept) :
    h.applyLine (mkLine k v) =
      match MediaType.tryFrom (trim v) with
      | some m => .ok { h with accept := m }
      | none => .ok h := by
  exact HeaderLemmas.accept_rule h _ k v hu (HeaderLemmas.splitOnce_mkLine k v hk) hn

/-- Content-Type and Server never change anything and never reject. -/
theorem content_type_server_rule (h : Headers) (k v : List Byte) (hu : isUtf8 (mkLine k v) = true)
    (hk : noColon k = true) (hn : Header.tryFrom k = some .contentType ∨ Header.tryFrom k = some .server) :
    h.applyLine (mkLine k v) = .ok h := by
  exact HeaderLemmas.content_type_server_rule h _ k v hu (HeaderLemmas.splitOnce_mkLine k v hk) hn

/-- Expect: the flag is set by `100-continue` (any occurrence), other values are ignored. -/
theorem expect_rule (h : Headers) (k v : List Byte) (hu : isUtf8 (mkLine k v) = true)
    (hk : noColon k = true) (hn : Header.tryFrom k = some .expect) :
    h.applyLine (mkLine k v) =
      .ok (if trim v = [0x31, 0x30, 0x30, 0x2D, 0x63, 0x6F, 0x6E, 0x74, 0x69, 0x6E, 0x75, 0x65]
           then { h with expect := true } else h) := by
  exact HeaderLemmas.expect_rule h _ k v hu (HeaderLemmas.splitOnce_mkLine k v hk) hn

/-- Transfer-Encoding: `chunked` sets the flag (any occurrence), other values are ignored. -/
theorem transfer_encoding_rule (h : Headers) (k v : List Byte) (hu : isUtf8 (mkLine k v) = true)
    (hk : noColon k = true) (hn : Header.tryFrom k = some .transferEncoding) :
    h.applyLine (mkLine k v) =
      .ok (if trim v = [0x63, 0x68, 0x75, 0x6E, 0x6B, 0x65, 0x64] then { h with chunked := true } else h) := by
  exact HeaderLemmas.transfer_encoding_rule h _ k v hu (HeaderLemmas.splitOnce_mkLine k v hk) hn

/-- Accept-Encoding never changes the headers; it is fatal exactly when `Encoding::try_from` of
    the trimmed value fails. -/
theorem accept_encoding_rule (h : Headers) (k v : List Byte) (hu : isUtf8 (mkLine k v) = true)
    (hk : noColon k = true) (hn : Header.tryFrom k = some .acceptEncoding) :
    h.applyLine (mkLine k v) =
      match Encoding.tryFrom (trim v) with
      | .ok _ => .ok h
      | .error e => .error e := by
  exact HeaderLemmas.accept_encoding_rule h _ k v hu (HeaderLemmas.splitOnce_mkLine k v hk) hn

/-- "identity;q=0" -/
def IDENTITY_Q0 : List Byte := [0x69, 0x64, 0x65, 0x6E, 0x74, 0x69, 0x74, 0x79, 0x3B, 0x71, 0x3D, 0x30]
/-- "*;q=0" -/
def STAR_Q0 : List Byte := [0x2A, 0x3B, 0x71, 0x3D, 0x30]
/-- "identity" -/
def IDENTITY : List Byte := [0x69, 0x64, 0x65, 0x6E, 0x74, 0x69, 0x74, 0x79]

/-- `Encoding::try_from` rejects exactly: the empty value, non-UTF-8, or a comma-separated item
    that trims to `identity;q=0`, or to `*;q=0` while "identity" is not mentioned anywhere. -/
theorem encoding_rejects_iff (bs : List Byte) :
    (∃ e, Encoding.tryFrom bs = .error e) ↔
      (bs = [] ∨ isUtf8 bs = false ∨
        ∃ item ∈ splitOn COMMA bs, trim item = IDENTITY_Q0 ∨
          (trim item = STAR_Q0 ∧ containsSub IDENTITY bs = false)) := by
  exact HeaderLemmas.encoding_rejects_iff bs

/-- Every other field is kept as a custom entry with trimmed name and value; the newest value of a
    name replaces the older one. -/
theorem custom_rule (h : Headers) (k v : List Byte) (hu : isUtf8 (mkLine k v) = true)
    (hk : noColon k = true) (hn : Header.tryFrom k = none) :
    h.applyLine (mkLine k v) = .ok { h with custom := insertCustom h.custom (trim k) (trim v) } := by
  exact HeaderLemmas.custom_rule h _ k v hu (HeaderLemmas.splitOnce_mkLine k v hk) hn

def lookupCustom (m : List (List Byte × List Byte)) (k : List Byte) : Option (List Byte) :=
  (m.find? (fun e => e.1 = k)).map (·.2)

theorem insertCustom_lookup (m : List (List Byte × List Byte)) (k v k' : List Byte) :
    lookupCustom (insertCustom m k v) k' = if k' = k then some v else lookupCustom m k' := by
  exact HeaderLemmas.insertCustom_lookup m k v k'

/-- Hence a line is fatal if and only if it has no colon, is not UTF-8, is a Content-Length that
    is not a u32 decimal, or an Accept-Encoding that `Encoding::try_from` rejects. -/
theorem fatal_iff (h : Headers) (line : List Byte) :
    (∃ e, h.applyLine line = .error e) ↔
      (isUtf8 line = false ∨ (splitOnce COLON line).2 = none ∨
        ∃ k v, splitOnce COLON line = (k, some v) ∧
          ((Header.tryFrom k = some .contentLength ∧ parseU32 (trim v) = none) ∨
           (Header.tryFrom k = some .acceptEncoding ∧ ∃ e, Encoding.tryFrom (trim v) = .error e))) := by
  exact HeaderLemmas.fatal_iff h line

/-- Parsing a header block = folding its CRLF-separated lines one by one with the same rule,
    stopping at the first empty line; a block that is not UTF-8 is rejected as a whole. -/
theorem block_eq_lines (bs : List Byte) :
    Headers.tryFrom bs =
      if isUtf8 bs then Headers.foldLines Headers.default (splitCRLF bs) else .error .invalidRequest := by
  exact HeaderLemmas.block_eq_lines bs

/-- the Content-Length a single line sets, if it is an acceptable Content-Length line -/
def clOf (line : List Byte) : Option Nat :=
  match splitOnce COLON line with
  | (k, some v) => if Header.tryFrom k = some .contentLength then parseU32 (trim v) else none
  | _ => none

/-- Content-Length takes the value of its LAST acceptable occurrence (over any accepted block of
    non-empty lines). -/
theorem content_length_last_wins (h0 h : Headers) (ls : List (List Byte))
    (hne : ∀ l ∈ ls, l ≠ []) (hf : Headers.foldLines h0 ls = .ok h) :
    h.contentLength = ((ls.reverse.findSome? clOf).getD h0.contentLength) := by
  exact HeaderLemmas.content_length_last_wins h0 h ls hne hf

/-- a line asks for 100-continue -/
def isExpectLine (line : List Byte) : Bool :=
  match splitOnce COLON line with
  | (k, some v) => Header.tryFrom k = some .expect &&
      trim v = [0x31, 0x30, 0x30, 0x2D, 0x63, 0x6F, 0x6E, 0x74, 0x69, 0x6E, 0x75, 0x65]
  | _ => false

/-- The expect-continue flag is set iff ANY occurrence asks for it. -/
theorem expect_any (h0 h : Headers) (ls : List (List Byte))
    (hne : ∀ l ∈ ls, l ≠ []) (hf : Headers.foldLines h0 ls = .ok h) :
    h.expect = (h0.expect || ls.any isExpectLine) := by
  exact HeaderLemmas.expect_any h0 h ls hne hf

example : Header.tryFrom [0x20, 0x63, 0x4F, 0x4E, 0x54, 0x45, 0x4E, 0x54, 0x2D, 0x6C, 0x65, 0x6E, 0x67, 0x74, 0x68, 0x09]
    = some .contentLength := by decide
example : ∃ e, Encoding.tryFrom (STAR_Q0 ++ [COMMA, 0x20] ++ [0x67, 0x7A]) = .error e := ⟨_, rfl⟩

end MicroHttp.C15
