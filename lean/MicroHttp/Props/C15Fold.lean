/-
  C15, continued — the "last acceptable occurrence" / "any occurrence" / "last occurrence" rules
  over whole header blocks, for Accept, Transfer-Encoding and custom entries (Content-Length and
  Expect are in `Props/C15.lean`).
-/
import MicroHttp.Props.C15
import MicroHttp.Proofs.HeaderFold
namespace MicroHttp.C15
open MicroHttp

/-- the media type a single line sets through `Accept`, if it is an Accept line with a supported value -/
def acceptOf (line : List Byte) : Option MediaType :=
  match splitOnce COLON line with
  | (k, some v) => if Header.tryFrom k = some .accept then MediaType.tryFrom (trim v) else none
  | _ => none

/-- Accept takes the value of its LAST acceptable occurrence. -/
theorem accept_last_wins (h0 h : Headers) (ls : List (List Byte))
    (hne : ∀ l ∈ ls, l ≠ []) (hf : Headers.foldLines h0 ls = .ok h) :
    h.accept = ((ls.reverse.findSome? acceptOf).getD h0.accept) := by
  exact HeaderFold.accept_last_wins h0 h ls hne hf

/-- a line asks for chunked transfer encoding -/
def isChunkedLine (line : List Byte) : Bool :=
  match splitOnce COLON line with
  | (k, some v) => Header.tryFrom k = some .transferEncoding &&
      trim v = [0x63, 0x68, 0x75, 0x6E, 0x6B, 0x65, 0x64]
  | _ => false

/-- The chunked flag is set iff ANY occurrence asks for it. -/
theorem chunked_any (h0 h : Headers) (ls : List (List Byte))
    (hne : ∀ l ∈ ls, l ≠ []) (hf : Headers.foldLines h0 ls = .ok h) :
    h.chunked = (h0.chunked || ls.any isChunkedLine) := by
  exact HeaderFold.chunked_any h0 h ls hne hf

/-- the custom entry a single line contributes: trimmed name and value, if the name is not recognised -/
def customOf (line : List Byte) : Option (List Byte × List Byte) :=
  match splitOnce COLON line with
  | (k, some v) => if Header.tryFrom k = none then some (trim k, trim v) else none
  | _ => none

def customValueFor (name : List Byte) (line : List Byte) : Option (List Byte) :=
  match customOf line with
  | some (k, v) => if k = name then some v else none
  | none => none

/-- Every other field is kept as a custom entry with trimmed name and value, the LAST occurrence
    of a name winning; entries present before the block survive unless overwritten. -/
theorem custom_last_wins (h0 h : Headers) (ls : List (List Byte))
    (hne : ∀ l ∈ ls, l ≠ []) (hf : Headers.foldLines h0 ls = .ok h) (name : List Byte) :
    lookupCustom h.custom name =
      (match ls.reverse.findSome? (customValueFor name) with
       | some v => some v
       | none => lookupCustom h0.custom name) := by
  exact HeaderFold.custom_last_wins h0 h ls hne hf name

/-- An accepted block leaves every recognised field that no line of it touches unchanged: lines
    only ever change the field their name designates. -/
theorem untouched_fields (h0 h : Headers) (ls : List (List Byte))
    (hne : ∀ l ∈ ls, l ≠ []) (hf : Headers.foldLines h0 ls = .ok h) :
    (ls.all (fun l => (clOf l).isNone) → h.contentLength = h0.contentLength) ∧
    (ls.all (fun l => (acceptOf l).isNone) → h.accept = h0.accept) ∧
    (ls.all (fun l => !isExpectLine l) → h.expect = h0.expect) ∧
    (ls.all (fun l => !isChunkedLine l) → h.chunked = h0.chunked) := by
  exact HeaderFold.untouched_fields h0 h ls hne hf

end MicroHttp.C15
