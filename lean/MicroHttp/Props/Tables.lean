/-
  Tables — the part of the model that is data (constants, token / status / header-name tables, the 503
  literal, the fixed texts of the response writer) is re-checked on every run against what /repo's source
  says NOW: `tools/extract.py` translates those items of the Rust source into `MicroHttp/Extracted.lean`,
  and the theorems below state, and the kernel checks by evaluation, that each extracted item equals the
  value the hand-written model (and therefore every theorem of C04/C05/C10/C15/C16/C18) uses.

  `Agrees x v` is `x = none ∨ x = some v`: an item the translator could not find (`none`, the source was
  restructured) falls back to the differential correspondence check and is listed in the evidence; an item it
  found and that differs makes the theorem fail to build — a broken proof obligation of the property.
-/
import MicroHttp.Extracted
import MicroHttp.Tokens
import MicroHttp.Headers
import MicroHttp.Response
import MicroHttp.Conn
import MicroHttp.Display
import MicroHttp.Server
namespace MicroHttp.Tables
open MicroHttp

def Agrees {α : Type} (x : Option α) (v : α) : Prop := x = none ∨ x = some v

instance {α : Type} [DecidableEq α] (x : Option α) (v : α) : Decidable (Agrees x v) := by
  unfold Agrees; exact inferInstance

/-! Rust names of the enum variants (the left-hand sides of the `match` arms). -/
def methodName : Method → String | .get => "Get" | .put => "Put" | .patch => "Patch"
def versionName : Version → String | .http10 => "Http10" | .http11 => "Http11"
def mediaName : MediaType → String | .plainText => "PlainText" | .applicationJson => "ApplicationJson"
def statusName : StatusCode → String
  | .continue_ => "Continue" | .ok => "OK" | .noContent => "NoContent" | .badRequest => "BadRequest"
  | .unauthorized => "Unauthorized" | .notFound => "NotFound" | .methodNotAllowed => "MethodNotAllowed"
  | .payloadTooLarge => "PayloadTooLarge" | .internalServerError => "InternalServerError"
  | .notImplemented => "NotImplemented" | .serviceUnavailable => "ServiceUnavailable"
def headerName : Header → String
  | .contentLength => "ContentLength" | .contentType => "ContentType" | .expect => "Expect"
  | .transferEncoding => "TransferEncoding" | .server => "Server" | .accept => "Accept"
  | .acceptEncoding => "AcceptEncoding"

/-! ### C04 — window and default payload limit -/
theorem buffer_size : Agrees Extracted.BUFFER_SIZE P0.B := by decide
theorem max_payload_size : Agrees Extracted.MAX_PAYLOAD_SIZE MAX_PAYLOAD_SIZE := by decide
theorem crlf_len : Agrees Extracted.CRLF_LEN CRLF.length := by decide

/-! ### C10 / C18 — capacity, the capacity test, the event array, the 503 literal -/
theorem max_connections : Agrees Extracted.MAX_CONNECTIONS MAX_CONNECTIONS := by decide
/-- `connections.len() == MAX_CONNECTIONS` (the model refuses exactly at equality; `SrvInv.cap` makes that "full") -/
theorem capacity_test_is_equality : Agrees Extracted.CAPACITY_TEST_IS_EQ 1 := by decide
/-- the event array has `MAX_CONNECTIONS + 2` slots: listener + kill switch + every connection (C18.registered_fits_batch) -/
theorem event_array_extra : Agrees Extracted.EVENT_ARRAY_EXTRA 2 := by decide
theorem server_full_message : Agrees Extracted.SERVER_FULL_ERROR_MESSAGE SERVER_FULL_ERROR_MESSAGE := by decide

/-! ### C16 — token tables, both directions, and the status table -/
theorem method_raw : Agrees Extracted.methodRaw (Method.all.map fun m => (methodName m, m.raw)) := by decide
theorem method_tryFrom : Agrees Extracted.methodTryFrom (Method.all.map fun m => (m.raw, methodName m)) := by decide
theorem version_raw : Agrees Extracted.versionRaw (Version.all.map fun v => (versionName v, v.raw)) := by decide
theorem version_tryFrom : Agrees Extracted.versionTryFrom (Version.all.map fun v => (v.raw, versionName v)) := by decide
theorem media_as_str : Agrees Extracted.mediaAsStr (MediaType.all.map fun m => (mediaName m, m.raw)) := by decide
theorem media_tryFrom : Agrees Extracted.mediaTryFrom (MediaType.all.map fun m => (m.raw, mediaName m)) := by decide
theorem status_raw : Agrees Extracted.statusRaw (StatusCode.all.map fun s => (statusName s, s.raw)) := by decide
theorem http_scheme_prefix : Agrees Extracted.HTTP_SCHEME_PREFIX HTTP_SCHEME_PREFIX := by decide

/-! ### C15 — recognised header names: canonical spelling and the lower-case keys `Header::try_from` matches -/
theorem header_raw : Agrees Extracted.headerRaw (Header.all.map fun h => (headerName h, h.raw)) := by decide
theorem header_tryFrom : Agrees Extracted.headerTryFrom (Header.all.map fun h => (asciiLower h.raw, headerName h)) := by decide

/-! ### C05 — fixed texts of the response writer -/
theorem default_server : Agrees Extracted.DEFAULT_SERVER DEFAULT_SERVER := by decide
theorem allow_delimiter : Agrees Extracted.ALLOW_DELIMITER [0x2C, 0x20] := by decide
/-- `b"Allow: "`, `b"Deprecation: true"`, `b"Connection: keep-alive"`, `b"identity"` in source order -/
theorem response_literals : Agrees Extracted.responseLiterals
    [[0x41, 0x6C, 0x6C, 0x6F, 0x77, 0x3A, 0x20],
     [0x44, 0x65, 0x70, 0x72, 0x65, 0x63, 0x61, 0x74, 0x69, 0x6F, 0x6E, 0x3A, 0x20, 0x74, 0x72, 0x75, 0x65],
     [0x43, 0x6F, 0x6E, 0x6E, 0x65, 0x63, 0x74, 0x69, 0x6F, 0x6E, 0x3A, 0x20, 0x6B, 0x65, 0x65, 0x70, 0x2D, 0x61, 0x6C, 0x69, 0x76, 0x65],
     [0x69, 0x64, 0x65, 0x6E, 0x74, 0x69, 0x74, 0x79]] := by decide

/-- those literals are the ones the model's serializer emits: a default response with every optional header
    switched on contains each of them as a piece -/
theorem response_literals_used :
    let r := (Response.new .http11 .ok).apply (.setAllow [.get]) |>.apply .setDeprecation |>.apply .setEncoding
    ∀ l ∈ [[0x41, 0x6C, 0x6C, 0x6F, 0x77, 0x3A, 0x20],
           [0x44, 0x65, 0x70, 0x72, 0x65, 0x63, 0x61, 0x74, 0x69, 0x6F, 0x6E, 0x3A, 0x20, 0x74, 0x72, 0x75, 0x65],
           [0x43, 0x6F, 0x6E, 0x6E, 0x65, 0x63, 0x74, 0x69, 0x6F, 0x6E, 0x3A, 0x20, 0x6B, 0x65, 0x65, 0x70, 0x2D, 0x61, 0x6C, 0x69, 0x76, 0x65],
           [0x69, 0x64, 0x65, 0x6E, 0x74, 0x69, 0x74, 0x79]], l ∈ r.pieces := by decide

/-! ### C05 — the response writer itself, translated statement by statement (tools/extract.py: `translate_writer`)

`Extracted.responseWriter` is the function `Response → List (List UInt8)` obtained from the Rust source of
`StatusLine::write_all`, `ResponseHeaders::{write_allow_header, write_deprecation_header, write_all}` and
`Response::{write_body, write_all}`: one list element per `buf.write_all(…)` call, `if … { return Ok(()) }` guards,
`if let Some(x) = self.…`, the `for (idx, method) in self.allow.iter().enumerate()` loop. The theorem says that for
EVERY response it yields exactly the pieces of the hand-written model — so C05's theorems (layout, length rule,
round trip, sink independence) are about what response.rs says now. -/

theorem allow_loop (n : Nat) : ∀ (l : List Method) (i : Nat), n = i + l.length →
    Extracted.forEnumFrom (fun idx (method : Method) =>
      ([method.raw] ++ ((if decide (idx < n - 1) then ([[0x2C, 0x20]] ++ []) else []) ++ []))) i l = allowPieces l := by
  intro l
  induction l with
  | nil => intro i _; rfl
  | cons m ms ih =>
    intro i hn
    cases ms with
    | nil =>
      have : ¬ (i < n - 1) := by simp at hn; omega
      simp [Extracted.forEnumFrom, allowPieces, this]
    | cons m' ms' =>
      have h1 : i < n - 1 := by simp at hn; omega
      have := ih (i + 1) (by simp at hn ⊢; omega)
      simp only [Extracted.forEnumFrom] at this ⊢
      rw [this]
      simp [allowPieces, h1]

theorem response_writer :
    Extracted.responseWriter = none ∨
    ∃ f, Extracted.responseWriter = some f ∧ ∀ r : Response, f r = r.pieces := by
  first
    | exact Or.inl rfl      -- the translator did not understand the writer: fall back to the correspondence
    | (right
       refine ⟨_, rfl, ?_⟩
       intro r
       simp only [Extracted.forEnum, allow_loop r.allow.length r.allow 0 (by simp)]
       unfold Response.pieces
       cases r.contentLength <;> cases r.body <;> cases r.deprecation <;> cases r.acceptEncoding <;>
         simp [Header.raw])

/-! Non-vacuity is reported per run: `check` records which items the translator found (`extracted` in the evidence);
    on the unchanged tree all of them are. -/

end MicroHttp.Tables
