/-
  Tables — the part of the model that is data (constants, token / status / header-name tables, the 503
  literal, the fixed texts of the response writer) is re-checked on every run against what /repo's source
  says NOW: `tools/extract.py` translates those items of the Rust source into `MicroHttp/Extracted.lean`,
  and the theorems below state, and the kernel checks by evaluation, that each extracted item equals the
  value the hand-written model (and therefore every theorem of C04/C05/C10/C15/C16/C18) uses.

  `Agrees x v` is `x = none ∨ x = some v`: an item the translator could not find (`none`, the source was
  restructured) falls back to the differential correspondence check and is listed in the evidence; an item it
  found and that differs makes the theorem fail to build — a broken proof obligation of the property.
-/
import MicroHttp.Extracted
import MicroHttp.Tokens
import MicroHttp.Headers
import MicroHttp.Response
import MicroHttp.Conn
import MicroHttp.Display
import MicroHttp.Server
import MicroHttp.Router
namespace MicroHttp.Tables
open MicroHttp

def Agrees {α : Type} (x : Option α) (v : α) : Prop := x = none ∨ x = some v

instance {α : Type} [DecidableEq α] (x : Option α) (v : α) : Decidable (Agrees x v) := by
  unfold Agrees; exact inferInstance

/-! Rust names of the enum variants (the left-hand sides of the `match` arms). -/
def methodName : Method → String | .get => "Get" | .put => "Put" | .patch => "Patch"
def versionName : Version → String | .http10 => "Http10" | .http11 => "Http11"
def mediaName : MediaType → String | .plainText => "PlainText" | .applicationJson => "ApplicationJson"
def statusName : StatusCode → String
  | .continue_ => "Continue" | .ok => "OK" | .noContent => "NoContent" | .badRequest => "BadRequest"
  | .unauthorized => "Unauthorized" | .notFound => "NotFound" | .methodNotAllowed => "MethodNotAllowed"
  | .payloadTooLarge => "PayloadTooLarge" | .internalServerError => "InternalServerError"
  | .notImplemented => "NotImplemented" | .serviceUnavailable => "ServiceUnavailable"
def headerName : Header → String
  | .contentLength => "ContentLength" | .contentType => "ContentType" | .expect => "Expect"
  | .transferEncoding => "TransferEncoding" | .server => "Server" | .accept => "Accept"
  | .acceptEncoding => "AcceptEncoding"

/-! ### every property — no state outside the objects

The model treats connections, servers, routers, responses and header sets as independent values: two connections
share nothing, a new server knows nothing of an earlier one. That is faithful only if the source keeps no state
outside its structs. The translator lists every `thread_local!`, `static mut`, `lazy_static!` and every `static` with
interior mutability in /repo/src (immutable `static` tables are fine); the list must be empty. (Eight of the eighteen
seeded changes of round twelve kept such state; all of them were reported through the correspondence as well — this
obligation names the broken modelling assumption directly.) -/
theorem no_shared_state : Agrees Extracted.sharedState [] := by decide

/-- Assumption A-pure, obligation of every property: the model takes each `&self` method — `Response::write_all`, the
getters, `HttpRoutes::handle_http_request`, `pending_write`, … — to be a function of the value it is called on, and each
`&mut self` method to change only what the model's step changes. That is only faithful if no type of the crate hides
state behind a shared reference: the translator lists every mention of `Cell`, `RefCell`, `UnsafeCell`, `OnceCell`,
`OnceLock`, `Lazy*`, `Mutex`, `RwLock` or an `Atomic*` type in the non-test source; the list must be empty. (Round
eighteen: a `Cell<usize>` write offset in `Response`, a `OnceLock` bound in `HttpRoutes`, an `AtomicUsize` budget.) -/
theorem no_interior_mutability : Agrees Extracted.interiorMutability [] := by decide

/-! ### C04 — window and default payload limit -/
theorem buffer_size : Agrees Extracted.BUFFER_SIZE P0.B := by decide
theorem max_payload_size : Agrees Extracted.MAX_PAYLOAD_SIZE MAX_PAYLOAD_SIZE := by decide
theorem crlf_len : Agrees Extracted.CRLF_LEN CRLF.length := by decide

/-! ### C10 / C18 — capacity, the capacity test, the event array, the 503 literal -/
theorem max_connections : Agrees Extracted.MAX_CONNECTIONS MAX_CONNECTIONS := by decide
/-- `connections.len() == MAX_CONNECTIONS` (the model refuses exactly at equality; `SrvInv.cap` makes that "full") -/
theorem capacity_test_is_equality : Agrees Extracted.CAPACITY_TEST_IS_EQ 1 := by decide
/-- the event array has `MAX_CONNECTIONS + 2` slots: listener + kill switch + every connection (C18.registered_fits_batch) -/
theorem event_array_extra : Agrees Extracted.EVENT_ARRAY_EXTRA 2 := by decide
theorem server_full_message : Agrees Extracted.SERVER_FULL_ERROR_MESSAGE SERVER_FULL_ERROR_MESSAGE := by decide

/-! ### C16 — token tables, both directions, and the status table -/
theorem method_raw : Agrees Extracted.methodRaw (Method.all.map fun m => (methodName m, m.raw)) := by decide
theorem method_tryFrom : Agrees Extracted.methodTryFrom (Method.all.map fun m => (m.raw, methodName m)) := by decide
theorem version_raw : Agrees Extracted.versionRaw (Version.all.map fun v => (versionName v, v.raw)) := by decide
theorem version_tryFrom : Agrees Extracted.versionTryFrom (Version.all.map fun v => (v.raw, versionName v)) := by decide
theorem media_as_str : Agrees Extracted.mediaAsStr (MediaType.all.map fun m => (mediaName m, m.raw)) := by decide
theorem media_tryFrom : Agrees Extracted.mediaTryFrom (MediaType.all.map fun m => (m.raw, mediaName m)) := by decide
theorem status_raw : Agrees Extracted.statusRaw (StatusCode.all.map fun s => (statusName s, s.raw)) := by decide
theorem http_scheme_prefix : Agrees Extracted.HTTP_SCHEME_PREFIX HTTP_SCHEME_PREFIX := by decide

/-! ### C15 — recognised header names: canonical spelling and the lower-case keys `Header::try_from` matches -/
theorem header_raw : Agrees Extracted.headerRaw (Header.all.map fun h => (headerName h, h.raw)) := by decide
theorem header_tryFrom : Agrees Extracted.headerTryFrom (Header.all.map fun h => (asciiLower h.raw, headerName h)) := by decide

/-! ### C05 — fixed texts of the response writer -/
theorem default_server : Agrees Extracted.DEFAULT_SERVER DEFAULT_SERVER := by decide
theorem allow_delimiter : Agrees Extracted.ALLOW_DELIMITER [0x2C, 0x20] := by decide
/-- `b"Allow: "`, `b"Deprecation: true"`, `b"Connection: keep-alive"`, `b"identity"` in source order -/
theorem response_literals : Agrees Extracted.responseLiterals
    [[0x41, 0x6C, 0x6C, 0x6F, 0x77, 0x3A, 0x20],
     [0x44, 0x65, 0x70, 0x72, 0x65, 0x63, 0x61, 0x74, 0x69, 0x6F, 0x6E, 0x3A, 0x20, 0x74, 0x72, 0x75, 0x65],
     [0x43, 0x6F, 0x6E, 0x6E, 0x65, 0x63, 0x74, 0x69, 0x6F, 0x6E, 0x3A, 0x20, 0x6B, 0x65, 0x65, 0x70, 0x2D, 0x61, 0x6C, 0x69, 0x76, 0x65],
     [0x69, 0x64, 0x65, 0x6E, 0x74, 0x69, 0x74, 0x79]] := by decide

/-- those literals are the ones the model's serializer emits: a default response with every optional header
    switched on contains each of them as a piece -/
theorem response_literals_used :
    let r := (Response.new .http11 .ok).apply (.setAllow [.get]) |>.apply .setDeprecation |>.apply .setEncoding
    ∀ l ∈ [[0x41, 0x6C, 0x6C, 0x6F, 0x77, 0x3A, 0x20],
           [0x44, 0x65, 0x70, 0x72, 0x65, 0x63, 0x61, 0x74, 0x69, 0x6F, 0x6E, 0x3A, 0x20, 0x74, 0x72, 0x75, 0x65],
           [0x43, 0x6F, 0x6E, 0x6E, 0x65, 0x63, 0x74, 0x69, 0x6F, 0x6E, 0x3A, 0x20, 0x6B, 0x65, 0x65, 0x70, 0x2D, 0x61, 0x6C, 0x69, 0x76, 0x65],
           [0x69, 0x64, 0x65, 0x6E, 0x74, 0x69, 0x74, 0x79]], l ∈ r.pieces := by decide

/-! ### C05 — the response writer itself, translated statement by statement (tools/extract.py: `translate_writer`)

`Extracted.responseWriter` is the function `Response → List (List UInt8)` obtained from the Rust source of
`StatusLine::write_all`, `ResponseHeaders::{write_allow_header, write_deprecation_header, write_all}` and
`Response::{write_body, write_all}`: one list element per `buf.write_all(…)` call, `if … { return Ok(()) }` guards,
`if let Some(x) = self.…`, the `for (idx, method) in self.allow.iter().enumerate()` loop. The theorem says that for
EVERY response it yields exactly the pieces of the hand-written model — so C05's theorems (layout, length rule,
round trip, sink independence) are about what response.rs says now. -/

theorem allow_loop (n : Nat) : ∀ (l : List Method) (i : Nat), n = i + l.length →
    Extracted.forEnumFrom (fun idx (method : Method) =>
      ([method.raw] ++ ((if decide (idx < n - 1) then ([[0x2C, 0x20]] ++ []) else []) ++ []))) i l = allowPieces l := by
  intro l
  induction l with
  | nil => intro i _; rfl
  | cons m ms ih =>
    intro i hn
    cases ms with
    | nil =>
      have : ¬ (i < n - 1) := by simp at hn; omega
      simp [Extracted.forEnumFrom, allowPieces, this]
    | cons m' ms' =>
      have h1 : i < n - 1 := by simp at hn; omega
      have := ih (i + 1) (by simp at hn ⊢; omega)
      simp only [Extracted.forEnumFrom] at this ⊢
      rw [this]
      simp [allowPieces, h1]

theorem response_writer :
    Extracted.responseWriter = none ∨
    ∃ f, Extracted.responseWriter = some f ∧ ∀ r : Response, f r = r.pieces := by
  first
    | exact Or.inl rfl      -- the translator did not understand the writer: fall back to the correspondence
    | (right
       refine ⟨_, rfl, ?_⟩
       intro r
       simp only [Extracted.forEnum, allow_loop r.allow.length r.allow 0 (by simp)]
       unfold Response.pieces
       cases r.contentLength <;> cases r.body <;> cases r.deprecation <;> cases r.acceptEncoding <;>
         simp [Header.raw])


/-! ### C04 — the texts that reach a client inside a 400 body (tools/extract.py: `display_templates`)

`Extracted.displayRequestError` / `displayHeaderError` are the `write!(f, "…{}…", args)` arms of the two `Display`
impls of common/mod.rs, one template per variant: literal pieces and holes, a hole being the index of the binding
printed there (so swapping `size` and `limit` is a different template). The `&'static str` arguments of
`InvalidHttpMethod` / `InvalidHttpVersion` / `InvalidUri` are collected from their construction sites, and the
`format!` of server.rs that wraps the text gives prefix and suffix of the 400 body. The theorems say that the
model's `ReqErr.display` / `HeaderErr.display` / `badRequestBody` are exactly the instances of those templates, for
EVERY error value. (`Utf8Error`'s own `Display` is core Rust: modelled, tied by the correspondence only.) -/

/-- fill the holes of a template -/
def inst (t : List (List UInt8 ⊕ Nat)) (args : List (List UInt8)) : List UInt8 :=
  t.flatMap fun p => match p with | .inl b => b | .inr i => args.getD i []

/-- 'Unsupported HTTP method.' -/
def T_METHOD : List UInt8 := [0x55, 0x6E, 0x73, 0x75, 0x70, 0x70, 0x6F, 0x72, 0x74, 0x65, 0x64, 0x20, 0x48, 0x54, 0x54, 0x50, 0x20, 0x6D, 0x65, 0x74, 0x68, 0x6F, 0x64, 0x2E]
/-- 'Unsupported HTTP version.' -/
def T_VERSION : List UInt8 := [0x55, 0x6E, 0x73, 0x75, 0x70, 0x70, 0x6F, 0x72, 0x74, 0x65, 0x64, 0x20, 0x48, 0x54, 0x54, 0x50, 0x20, 0x76, 0x65, 0x72, 0x73, 0x69, 0x6F, 0x6E, 0x2E]
/-- 'Empty URI not allowed.' -/
def T_URI_EMPTY : List UInt8 := [0x45, 0x6D, 0x70, 0x74, 0x79, 0x20, 0x55, 0x52, 0x49, 0x20, 0x6E, 0x6F, 0x74, 0x20, 0x61, 0x6C, 0x6C, 0x6F, 0x77, 0x65, 0x64, 0x2E]
/-- 'Cannot parse URI as UTF-8.' -/
def T_URI_UTF8 : List UInt8 := [0x43, 0x61, 0x6E, 0x6E, 0x6F, 0x74, 0x20, 0x70, 0x61, 0x72, 0x73, 0x65, 0x20, 0x55, 0x52, 0x49, 0x20, 0x61, 0x73, 0x20, 0x55, 0x54, 0x46, 0x2D, 0x38, 0x2E]
/-- 'Invalid HTTP Method: ' -/
def T_METHOD_PRE : List UInt8 := [0x49, 0x6E, 0x76, 0x61, 0x6C, 0x69, 0x64, 0x20, 0x48, 0x54, 0x54, 0x50, 0x20, 0x4D, 0x65, 0x74, 0x68, 0x6F, 0x64, 0x3A, 0x20]
/-- 'Invalid HTTP Version: ' -/
def T_VERSION_PRE : List UInt8 := [0x49, 0x6E, 0x76, 0x61, 0x6C, 0x69, 0x64, 0x20, 0x48, 0x54, 0x54, 0x50, 0x20, 0x56, 0x65, 0x72, 0x73, 0x69, 0x6F, 0x6E, 0x3A, 0x20]
/-- 'Invalid URI: ' -/
def T_URI_PRE : List UInt8 := [0x49, 0x6E, 0x76, 0x61, 0x6C, 0x69, 0x64, 0x20, 0x55, 0x52, 0x49, 0x3A, 0x20]
/-- 'Unsupported feature. Key: ' (a variant the library never constructs; its arm exists) -/
def T_H_FEATURE_1 : List UInt8 := [0x55, 0x6E, 0x73, 0x75, 0x70, 0x70, 0x6F, 0x72, 0x74, 0x65, 0x64, 0x20, 0x66, 0x65, 0x61, 0x74, 0x75, 0x72, 0x65, 0x2E, 0x20, 0x4B, 0x65, 0x79, 0x3A, 0x20]
/-- '; Value: ' -/
def T_H_FEATURE_2 : List UInt8 := [0x3B, 0x20, 0x56, 0x61, 0x6C, 0x75, 0x65, 0x3A, 0x20]

def reqErrName : ReqErr → String
  | .bodyWithoutPendingRequest => "BodyWithoutPendingRequest" | .headerError _ => "HeaderError"
  | .headersWithoutPendingRequest => "HeadersWithoutPendingRequest" | .invalidHttpMethod => "InvalidHttpMethod"
  | .invalidHttpVersion => "InvalidHttpVersion" | .invalidRequest => "InvalidRequest" | .invalidUri _ => "InvalidUri"
  | .overflow => "Overflow" | .underflow => "Underflow" | .sizeLimitExceeded _ _ => "SizeLimitExceeded"

/-- the values bound by the variant's pattern, as the texts `{}` prints for them, in binding order -/
def reqErrArgs : ReqErr → List (List UInt8)
  | .headerError e => [e.display]
  | .invalidHttpMethod => [T_METHOD]
  | .invalidHttpVersion => [T_VERSION]
  | .invalidUri .empty => [T_URI_EMPTY]
  | .invalidUri .notUtf8 => [T_URI_UTF8]
  | .sizeLimitExceeded limit size => [decimal limit, decimal size]
  | _ => []

/-- the templates of `impl Display for RequestError`, written with the model's constants, in source order -/
def reqErrTemplates : List (String × List (List UInt8 ⊕ Nat)) :=
  [("BodyWithoutPendingRequest", [.inl D_BODY_WO]),
   ("HeaderError", [.inl D_HDR_PRE, .inr 0]),
   ("HeadersWithoutPendingRequest", [.inl D_HDRS_WO]),
   ("InvalidHttpMethod", [.inl T_METHOD_PRE, .inr 0]),
   ("InvalidHttpVersion", [.inl T_VERSION_PRE, .inr 0]),
   ("InvalidRequest", [.inl D_INVALID]),
   ("InvalidUri", [.inl T_URI_PRE, .inr 0]),
   ("Overflow", [.inl D_OVERFLOW]),
   ("Underflow", [.inl D_UNDERFLOW]),
   ("SizeLimitExceeded", [.inl D_SIZE_1, .inr 1, .inl D_SIZE_2, .inr 0, .inl D_SIZE_3])]

def hdrErrName : HeaderErr → String
  | .invalidFormat _ => "InvalidFormat" | .invalidUtf8 _ => "InvalidUtf8String" | .invalidValue _ _ => "InvalidValue"
  | .sizeLimitExceeded _ => "SizeLimitExceeded" | .unsupportedName _ => "UnsupportedName"
  | .unsupportedValue _ _ => "UnsupportedValue"

def hdrErrArgs : HeaderErr → List (List UInt8)
  | .invalidFormat k => [k] | .invalidUtf8 e => [e.display] | .invalidValue k v => [k, v]
  | .sizeLimitExceeded s => [s] | .unsupportedName k => [k] | .unsupportedValue k v => [k, v]

def hdrErrTemplates : List (String × List (List UInt8 ⊕ Nat)) :=
  [("InvalidFormat", [.inl D_H_FORMAT, .inr 0]),
   ("InvalidUtf8String", [.inl D_H_UTF8, .inr 0]),
   ("InvalidValue", [.inl D_H_VALUE_1, .inr 0, .inl D_H_VALUE_2, .inr 1]),
   ("SizeLimitExceeded", [.inl D_H_SIZE, .inr 0]),
   ("UnsupportedFeature", [.inl T_H_FEATURE_1, .inr 0, .inl T_H_FEATURE_2, .inr 1]),
   ("UnsupportedName", [.inl D_H_UNAME, .inr 0]),
   ("UnsupportedValue", [.inl D_H_UVALUE_1, .inr 0, .inl D_H_VALUE_2, .inr 1])]

theorem display_request_error_templates : Agrees Extracted.displayRequestError reqErrTemplates := by decide
theorem display_header_error_templates : Agrees Extracted.displayHeaderError hdrErrTemplates := by decide
theorem invalid_method_texts : Agrees Extracted.invalidMethodTexts [T_METHOD] := by decide
theorem invalid_version_texts : Agrees Extracted.invalidVersionTexts [T_VERSION] := by decide
theorem invalid_uri_texts : Agrees Extracted.invalidUriTexts [T_URI_EMPTY, T_URI_UTF8] := by decide
theorem bad_request_prefix : Agrees Extracted.BAD_REQUEST_PREFIX D_400_PRE := by decide
theorem bad_request_suffix : Agrees Extracted.BAD_REQUEST_SUFFIX D_400_POST := by decide

/-- the model's `Display` of a header error is the instance of that variant's template, for every error value -/
theorem header_error_display (e : HeaderErr) :
    (hdrErrTemplates.lookup (hdrErrName e)).map (inst · (hdrErrArgs e)) = some e.display := by
  cases e <;> simp [hdrErrTemplates, hdrErrName, List.lookup, HeaderErr.display, inst, hdrErrArgs]

/-- the model's `Display` of a request error is the instance of that variant's template, for every error value -/
theorem request_error_display (e : ReqErr) :
    (reqErrTemplates.lookup (reqErrName e)).map (inst · (reqErrArgs e)) = some e.display := by
  cases e with
  | invalidUri k => cases k <;> decide
  | headerError h => simp [reqErrTemplates, reqErrName, List.lookup, ReqErr.display, inst, reqErrArgs]
  | sizeLimitExceeded l n => simp [reqErrTemplates, reqErrName, List.lookup, ReqErr.display, inst, reqErrArgs]
  | _ => decide

/-- the 400 body: prefix, the error's text, suffix -/
theorem bad_request_body (e : ReqErr) : badRequestBody e = D_400_PRE ++ e.display ++ D_400_POST := rfl



/-! ### C05 — the response builder, translated (tools/extract.py: `translate_new`, `translate_builder`)

`Response::new` (with `..Default::default()` resolved through `impl Default for ResponseHeaders` / `MediaType`) and
the eight public setters (through the `ResponseHeaders` setters they call) are translated into Lean functions over
the model's record; with `response_writer` the whole of response.rs that C05 talks about — construction, every
builder call, serialization — is tied to the model by proof, for EVERY version, status, call and response. -/

theorem response_new :
    Extracted.responseNew = none ∨
    ∃ f, Extracted.responseNew = some f ∧ ∀ (v : Version) (s : StatusCode), f v s = Response.new v s := by
  first
    | exact Or.inl rfl
    | (right
       refine ⟨_, rfl, ?_⟩
       intro v s
       cases s <;> rfl)

theorem response_apply :
    Extracted.responseApply = none ∨
    ∃ f, Extracted.responseApply = some f ∧ ∀ (r : Response) (op : BuildOp), f r op = r.apply op := by
  first
    | exact Or.inl rfl
    | (right
       refine ⟨_, rfl, ?_⟩
       intro r op
       cases op <;> rfl)

/-- hence every response built through the public API is the model's: the translated constructor folded with the
    translated setters equals `Response.build` -/
theorem response_build (v : Version) (s : StatusCode) (ops : List BuildOp) :
    (Extracted.responseNew = none ∨ Extracted.responseApply = none) ∨
    ∃ n a, Extracted.responseNew = some n ∧ Extracted.responseApply = some a ∧
      ops.foldl a (n v s) = Response.build v s ops := by
  rcases response_new with h | ⟨n, hn, hn'⟩
  · exact Or.inl (Or.inl h)
  rcases response_apply with h | ⟨a, ha, ha'⟩
  · exact Or.inl (Or.inr h)
  refine Or.inr ⟨n, a, hn, ha, ?_⟩
  unfold Response.build
  rw [hn' v s]
  generalize Response.new v s = r0
  induction ops generalizing r0 with
  | nil => rfl
  | cons op ops ih => simp only [List.foldl_cons, ha' r0 op]; exact ih _

/-! ### C07 / C06 — the predicates that decide removal and pending output (tools/extract.py: `translate_pred`)

`ClientConnection::is_done` and `HttpConnection::pending_write` are one boolean expression each; the translator
turns the expression into a Lean function over the model's state, and the theorems say it is the model's
predicate on EVERY state — so C07's "removed only when closed, nothing unsent, nothing in flight" and C06's
"pending output reported exactly while something is unsent" are about the expressions the source contains now. -/

theorem is_done_pred :
    Extracted.isDone = none ∨ ∃ f, Extracted.isDone = some f ∧ ∀ c : Client, f c = c.isDone := by
  first
    | exact Or.inl rfl
    | (right
       refine ⟨_, rfl, ?_⟩
       intro c
       unfold Client.isDone
       cases c.state <;> cases pendingWrite c.conn <;> cases h : c.inflight <;> simp)

theorem pending_write_pred :
    Extracted.pendingWrite = none ∨ ∃ f, Extracted.pendingWrite = some f ∧ ∀ c : Conn0, f c = pendingWrite c := by
  first
    | exact Or.inl rfl
    | (right
       refine ⟨_, rfl, ?_⟩
       intro c
       unfold MicroHttp.pendingWrite
       cases c.respBuf <;> cases c.respQ <;> simp)


/-! ### C08 / C09 / C07 — the two small transitions of `ClientConnection` (tools/extract.py:
`translate_client_write`, `translate_client_enqueue`)

`ClientConnection::write` is a `match` on the outcome of `try_write` whose arms assign `self.state`; translated,
it is a function (state before, outcome, pending output afterwards) ↦ state after, and `client_write_state` proves
the model's `Client.write` computes exactly that state for EVERY connection and EVERY stream behaviour — this is
where "a stale OUT registration is harmless" (F2/F4, C09.stale_out_is_harmless) and "a failed write closes" live.
`ClientConnection::enqueue_response` — enqueue unless closed, then `checked_sub(1)` or Underflow — is translated with
the order of its two statements; `client_enqueue` proves `respond` does exactly that to the connection it finds. -/

set_option linter.unusedSimpArgs false in
theorem client_write_state :
    Extracted.clientWriteState = none ∨
    ∃ f, Extracted.clientWriteState = some f ∧ ∀ (c : Client) (w : SinkStep),
      (c.write w).1.state = f c.state (tryWrite c.conn w).2.1 (pendingWrite (tryWrite c.conn w).1) ∧
      (c.write w).1.conn = (tryWrite c.conn w).1 ∧ (c.write w).1.inflight = c.inflight := by
  first
    | exact Or.inl rfl
    | (right
       refine ⟨_, rfl, ?_⟩
       intro c w
       unfold Client.write
       rcases h : tryWrite c.conn w with ⟨conn', out, bytes, b⟩
       cases out <;> cases hs : c.state <;> cases hp : pendingWrite conn' <;> simp [hs, hp])

/-- what `respond` does to the connection it finds, after arming it for output -/
theorem client_enqueue :
    Extracted.clientEnqueue = none ∨
    ∃ f, Extracted.clientEnqueue = some f ∧ ∀ (s : Srv) (tok : Token) (r : Response) (c : Client),
      findClient s.conns tok.fd = some c →
      let st1 := if c.state = .awaitingIn then CState.awaitingOut else c.state
      let conn2 := if (f st1 c.inflight).1 then enqueue c.conn r else c.conn
      ((respond s tok r).2.1 = .underflow ↔ (f st1 c.inflight).2 = none) ∧
      ∃ c', (respond s tok r).1.conns = replaceClient s.conns c' ∧ c'.conn = conn2 ∧ c'.state = st1 ∧
        c'.inflight = ((f st1 c.inflight).2).getD c.inflight := by
  first
    | exact Or.inl rfl
    | (right
       refine ⟨_, rfl, ?_⟩
       intro s tok r c hc
       unfold respond
       simp only [hc]
       cases hs : c.state <;> cases hn : c.inflight <;> simp [hs, hn] <;>
         first
           | exact ⟨_, rfl, rfl, rfl, rfl⟩
           | exact ⟨c, rfl, rfl, hs, hn⟩
           | exact ⟨_, rfl, by simp [hs], by simp [hs], by simp [hn]⟩)

/-- Both constructors of `HttpServer` (`new`, `new_from_fd`) return the model's initial server: the default payload
    limit, no kill switch, no connections (the remaining fields are the OS resources). -/
theorem server_new : Agrees Extracted.serverNew (Srv.new.limit, Srv.new.hasKill, Srv.new.conns.isEmpty) := by decide
theorem server_new_from_fd : Agrees Extracted.serverNewFromFd (Srv.new.limit, Srv.new.hasKill, Srv.new.conns.isEmpty) := by decide

def pstateName : PState → String
  | .reqLine => "WaitingForRequestLine" | .headers => "WaitingForHeaders" | .body => "WaitingForBody" | .ready => "RequestReady"
def cstateName : CState → String
  | .awaitingIn => "AwaitingIncoming" | .awaitingOut => "AwaitingOutgoing" | .closed => "Closed"

def connNewView (c : Conn0) : String × Nat × Bool × Nat × Bool × Bool × Bool × Bool × Bool × Nat :=
  (pstateName c.state, c.win.length, c.bodyVec.isEmpty, c.toRead, c.pending.isNone, c.parsed.isEmpty, c.respQ.isEmpty,
   c.respBuf.isNone, c.files.isEmpty, c.limit)

set_option synthInstance.maxSize 2048 in
/-- `HttpConnection::new` is the model's new connection with the default limit: parser state, empty window, nothing
    staged, nothing pending / parsed / queued / partly written, no descriptors. -/
theorem conn_new : Agrees Extracted.connNew (connNewView (Conn.new MAX_PAYLOAD_SIZE)) := by decide

def clientNewView (c : Client) : String × Nat := (cstateName c.state, c.inflight)

/-- `ClientConnection::new`: awaiting input, nothing in flight — the model's accepted client. -/
theorem client_new :
    Agrees Extracted.clientNew (clientNewView { fd := 0, inst := 0, conn := Conn.new MAX_PAYLOAD_SIZE }) := by decide

/-- `HttpServer::set_payload_max_size` and `HttpConnection::set_payload_max_size` store their argument and do nothing
    else (the model's `{ s with limit := l }` / `Conn.setLimit`), and an accepted connection is `HttpConnection::new`
    followed by the setter with the server's current limit (the model's `Conn.new s.limit`) — for EVERY value, 0 included. -/
theorem server_set_limit : Agrees Extracted.SERVER_SET_LIMIT_IS_ASSIGNMENT 1 := by decide
theorem conn_set_limit : Agrees Extracted.CONN_SET_LIMIT_IS_ASSIGNMENT 1 := by decide
theorem accept_configures_limit : Agrees Extracted.ACCEPT_CONFIGURES_LIMIT 1 := by decide

/-! ### The model covers the whole state of the code (assumption A-state)

Every field of every type of the crate is accounted for by a field of the model (or is an OS resource / configuration
the model takes as input). A field ADDED to one of these types — a cache, a counter, a "remembered" value: the stock of
round eighteen to twenty (`pending_headers`, `peer_version`, `uncollected_requests`, `consecutive_parse_errors`,
`seen_input`, `yielded_in_batch`, `longest_key`, `sent`) — is state the model does not have, whether or not a generated
history happens to show its effect: the obligation of the properties that speak about that type breaks. -/

/-- `HttpConnection`: model field ← code field -/
def connFieldMap : List (String × String) :=
  [("pending", "pending_request"), ("(stream: the `Recv` / `SinkStep` inputs)", "stream"), ("state", "state"),
   ("win (= buffer[0 .. read_cursor))", "buffer"), ("win.length", "read_cursor"), ("bodyVec", "body_vec"),
   ("toRead", "body_bytes_to_be_read"), ("parsed", "parsed_requests"), ("respQ", "response_queue"),
   ("respBuf", "response_buffer"), ("files", "files"), ("limit", "payload_max_size")]

theorem conn_fields : Agrees Extracted.fieldsHttpConnection (connFieldMap.map (·.2)) := by decide
theorem client_fields : Agrees Extracted.fieldsClientConnection ["connection", "state", "in_flight_response_count"] := by decide
theorem server_fields :
    Agrees Extracted.fieldsHttpServer ["socket", "epoll", "kill_switch", "connections", "payload_max_size"] := by decide
theorem response_fields :
    Agrees Extracted.fieldsResponse ["status_line", "headers", "body"] ∧
    Agrees Extracted.fieldsStatusLine ["http_version", "status_code"] ∧
    Agrees Extracted.fieldsResponseHeaders ["content_length", "content_type", "deprecation", "server", "allow", "accept_encoding"] := by
  decide
theorem routes_fields : Agrees Extracted.fieldsHttpRoutes ["server_id", "prefix", "media_type", "routes"] := by decide
theorem headers_fields :
    Agrees Extracted.fieldsHeaders ["content_length", "expect", "chunked", "accept", "custom_entries"] := by decide
theorem request_fields :
    Agrees Extracted.fieldsRequest ["request_line", "headers", "body", "files"] ∧
    Agrees Extracted.fieldsRequestLine ["method", "uri", "http_version"] ∧
    Agrees Extracted.fieldsUri ["string"] := by decide

/-- The clean restart after a `ParseError` assigns exactly the six parser fields, to the values `resetParser` gives them
    (`win := []` is `read_cursor = 0`); together with `conn_fields` this says that EVERY field of the connection is either
    reset here or belongs to the output side / configuration / completed requests, which C11 leaves alone. -/
theorem reset_block :
    Agrees Extracted.resetAfterParseError
      [("state", "ConnectionState::WaitingForRequestLine"), ("pending_request", "None"), ("read_cursor", "0"),
       ("body_vec", "clear"), ("body_bytes_to_be_read", "0"), ("files", "clear")] := by decide

/-- … and the model's reset is that assignment -/
theorem reset_is_model (c : Conn0) :
    (resetParser c).state = .reqLine ∧ (resetParser c).pending = none ∧ (resetParser c).win = [] ∧
    (resetParser c).bodyVec = [] ∧ (resetParser c).toRead = 0 ∧ (resetParser c).files = [] ∧
    (resetParser c).parsed = c.parsed ∧ (resetParser c).respQ = c.respQ ∧ (resetParser c).respBuf = c.respBuf ∧
    (resetParser c).limit = c.limit := by
  simp [resetParser]

/-! ### the router and `Uri::get_abs_path`, translated from router.rs / request.rs (obligations of C17 and C16) -/

theorem method_to_str : Agrees Extracted.methodToStr (Method.all.map fun m => (methodName m, m.toStr)) := by decide

/-- the key under which `add_route` files a handler -/
theorem router_add_key :
    Extracted.routerAddKey = none ∨
    ∃ f, Extracted.routerAddKey = some f ∧ ∀ (m : Method) (pre path : List Byte), f m pre path = routeKey m pre path := by
  first
    | exact Or.inl rfl
    | (right
       refine ⟨_, rfl, ?_⟩
       intro m pre path
       simp [routeKey, COLON, List.append_assoc])

/-- `add_route` as a whole: the key, refused exactly when occupied (with that key, nothing changed), else inserted -/
theorem router_add :
    Extracted.routerAddKey = none ∨ Extracted.routerAddShape = none ∨
    ∃ k g, Extracted.routerAddKey = some k ∧ Extracted.routerAddShape = some g ∧
      ∀ (r : Routes) (m : Method) (path : List Byte) (h : Nat),
        let key := k m r.prefix_ path
        let occ := (lookupRoute r.routes key).isSome
        r.addRoute m path h =
          (if (g occ).1 then { r with routes := r.routes ++ [(key, h)] } else r,
           if (g occ).2 then .ok () else .error key) := by
  first
    | exact Or.inl rfl
    | exact Or.inr (Or.inl rfl)
    | (right; right
       refine ⟨_, _, rfl, rfl, ?_⟩
       intro r m path h
       have hk : (m.toStr ++ [0x3A] ++ r.prefix_ ++ path : List Byte) = routeKey m r.prefix_ path := by
         simp [routeKey, COLON, List.append_assoc]
       simp only [hk]
       unfold Routes.addRoute
       cases hl : lookupRoute r.routes (routeKey m r.prefix_ path) <;> simp [hl])

/-- the key `handle_http_request` looks up -/
theorem router_dispatch_key :
    Extracted.routerDispatchKey = none ∨
    ∃ f, Extracted.routerDispatchKey = some f ∧ ∀ (r : Routes) (req : Request),
      r.dispatch req = lookupRoute r.routes (f req.line.method (getAbsPath req.line.uri)) := by
  first
    | exact Or.inl rfl
    | (right
       refine ⟨_, rfl, ?_⟩
       intro r req
       simp [Routes.dispatch, COLON, List.append_assoc])

/-- what `handle_http_request` makes of the handler's response (or of the absence of a handler) -/
theorem router_handle :
    Extracted.routerHandle = none ∨
    ∃ f, Extracted.routerHandle = some f ∧ ∀ (r : Routes) (req : Request) (hr : Nat → Response),
      r.handle req hr = f r ((r.dispatch req).map hr) := by
  first
    | exact Or.inl rfl
    | (right
       refine ⟨_, rfl, ?_⟩
       intro r req hr
       unfold Routes.handle
       cases r.dispatch req <;> rfl)

theorem fromFirstSlash_eq_dropWhile (l : List Byte) : fromFirstSlash l = l.dropWhile (· != 47) := by
  induction l with
  | nil => rfl
  | cons b bs ih =>
    unfold fromFirstSlash
    by_cases hb : b = 47
    · subst hb; simp [SLASH, List.dropWhile]
    · have h1 : (b == SLASH) = false := by simp [SLASH, hb]
      have h2 : (b != 47) = true := by simp [hb]
      simp [h1, List.dropWhile, h2, ih]

/-- `Uri::get_abs_path` -/
theorem uri_abs_path :
    Extracted.uriAbsPath = none ∨
    ∃ f, Extracted.uriAbsPath = some f ∧ ∀ uri : List Byte, f uri = getAbsPath uri := by
  first
    | exact Or.inl rfl
    | (right
       refine ⟨_, rfl, ?_⟩
       intro uri
       simp only [getAbsPath, fromFirstSlash_eq_dropWhile]
       rfl)

/-! Non-vacuity is reported per run: `check` records which items the translator found (`extracted` in the evidence);
    on the unchanged tree all of them are. -/

end MicroHttp.Tables
