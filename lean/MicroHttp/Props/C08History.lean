/-
  C08 (continued) — "no stall": interest follows work at EVERY point of EVERY admissible history.

  `C08.interest_follows_work` speaks about a state with the invariant; lifted through `C10.history_inv` to
  every state reachable by an admissible history of public calls (any length, any order, any read / write
  results): a connection with unsent output is registered for writability (so the next poll will write), and a
  connection registered for readability has nothing unsent (so it is not sitting on an answer). Likewise no
  `respond` to an outstanding request of such a history leaves an open connection unarmed.
-/
import MicroHttp.ServerSpec
import MicroHttp.Props.C08
import MicroHttp.Props.C10History
import MicroHttp.Props.C18History
namespace MicroHttp.C08
open MicroHttp MicroHttp.C10

theorem interest_follows_work_throughout (s : Srv) (h : SrvInv s) (ops : List SOp) (hh : HistOK s ops)
    (c : Client) (hc : c ∈ (run s ops).conns) :
    (pendingWrite c.conn = true → c.interest = .out) ∧ (c.interest = .inn → pendingWrite c.conn = false) :=
  interest_follows_work (run s ops) (history_inv ops s h hh) c hc

/-- every answer of every admissible history to a request of a connection that is still open leaves that
    connection waiting for writability with the answer pending -/
theorem every_answer_arms_out (s : Srv) (h : SrvInv s) (pre : List SOp) (tok : Token) (r : Response) (post : List SOp)
    (hh : HistOK s (pre ++ .respond tok r :: post))
    (c : Client) (hc : findClient (run s pre).conns tok.fd = some c) (hopen : c.state ≠ .closed) :
    ∃ c', findClient (run s (pre ++ [.respond tok r])).conns tok.fd = some c' ∧ c'.state = .awaitingOut ∧
      c'.interest = .out ∧ pendingWrite c'.conn = true := by
  obtain ⟨hpre, hop⟩ := C18.histOK_split pre (.respond tok r) post s hh
  have e : run s (pre ++ [.respond tok r]) = (respond (run s pre) tok r).1 := by
    unfold run; rw [List.foldl_append]; rfl
  rw [e]
  exact respond_arms_out (run s pre) (history_inv pre s h hpre) tok hop r c hc hopen

/-- non-vacuity: a request yielded from an open connection and answered; the history is admissible and the
    connection is open when the answer arrives -/
example :
    let getReq : List Byte := [0x47, 0x45, 0x54, 0x20, 0x2F, 0x20, 0x48, 0x54, 0x54, 0x50, 0x2F, 0x31, 0x2E, 0x31, 0x0D, 0x0A, 0x0D, 0x0A]
    let pre : List SOp := [.poll [.listener 7], .poll [.client 7 { inn := true } (.data getReq []) [] .fail]]
    HistOK Srv.new (pre ++ .respond ⟨7, 0⟩ (Response.new .http11 .ok) :: []) ∧
    (∃ c, findClient (run Srv.new pre).conns 7 = some c ∧ c.state ≠ .closed) := by
  refine ⟨⟨⟨?_, fun _ => trivial⟩, ⟨⟨⟨_, rfl, fun _ => rfl, fun h => by cases h⟩, fun _ => trivial⟩, ⟨?_, trivial⟩⟩⟩, ?_⟩
  · show (7 : Nat) ∉ Srv.fds Srv.new
    decide
  · show (⟨7, 0⟩ : Token) ∈ Srv.outstanding _
    decide
  · exact ⟨_, rfl, by decide⟩

end MicroHttp.C08
