/-
  C05 — serialized responses are well-formed and self-delimiting.
-/
import MicroHttp.Response
import MicroHttp.Spec.RespReader
import MicroHttp.Proofs.ResponseLemmas
import MicroHttp.Proofs.ReaderLemmas
namespace MicroHttp.C05
open MicroHttp

/-- the builder calls the property quantifies over (everything except `set_content_length`) -/
def BuildOp.plain : BuildOp → Bool
  | .setContentLength _ => false
  | _ => true

/-- no CR LF pair inside -/
def noCRLF (l : List Byte) : Bool := (find CRLF l).isNone

/-- what a reader must recover: the header lines, in order -/
def headerLines (r : Response) : List (List Byte) :=
  [[0x53, 0x65, 0x72, 0x76, 0x65, 0x72, 0x3A, 0x20] ++ r.server,
   [0x43, 0x6F, 0x6E, 0x6E, 0x65, 0x63, 0x74, 0x69, 0x6F, 0x6E, 0x3A, 0x20, 0x6B, 0x65, 0x65, 0x70,
    0x2D, 0x61, 0x6C, 0x69, 0x76, 0x65]] ++
  (if r.allow.isEmpty then [] else
    [[0x41, 0x6C, 0x6C, 0x6F, 0x77, 0x3A, 0x20] ++ (allowPieces r.allow).flatten]) ++
  (if r.deprecation then
    [[0x44, 0x65, 0x70, 0x72, 0x65, 0x63, 0x61, 0x74, 0x69, 0x6F, 0x6E, 0x3A, 0x20, 0x74, 0x72, 0x75, 0x65]]
   else []) ++
  (match r.contentLength with
   | none => []
   | some n =>
     [[0x43, 0x6F, 0x6E, 0x74, 0x65, 0x6E, 0x74, 0x2D, 0x54, 0x79, 0x70, 0x65, 0x3A, 0x20] ++ r.contentType.raw,
      [0x43, 0x6F, 0x6E, 0x74, 0x65, 0x6E, 0x74, 0x2D, 0x4C, 0x65, 0x6E, 0x67, 0x74, 0x68, 0x3A, 0x20] ++ decimalInt n] ++
     (if r.acceptEncoding then
        [[0x41, 0x63, 0x63, 0x65, 0x70, 0x74, 0x2D, 0x45, 0x6E, 0x63, 0x6F, 0x64, 0x69, 0x6E, 0x67, 0x3A, 0x20,
          0x69, 0x64, 0x65, 0x6E, 0x74, 0x69, 0x74, 0x79]]
      else []))

/-- Layout: status line `VERSION SP CODE SP CRLF`, the header lines each followed by CRLF
    (Server, Connection: keep-alive, optional Allow and Deprecation, then — only when a length is
    present — Content-Type, Content-Length, optional Accept-Encoding), a blank line, the body. -/
theorem layout (r : Response) :
    r.serialize =
      r.version.raw ++ [SP] ++ r.status.raw ++ [SP, CR, LF] ++
      ((headerLines r).map (· ++ CRLF)).flatten ++ CRLF ++ (r.body.getD []) := by
  exact ResponseLemmas.layout r

/-- Content-Length is present for every status other than 100/204 even when no body was set,
    absent for 100/204 unless a body was set, and after a body is set equals the body's length
    (as `i32`; exact below 2³¹ bytes). -/
theorem length_rule (v : Version) (s : StatusCode) (ops : List BuildOp) (hops : ∀ op ∈ ops, BuildOp.plain op = true) :
    let r := Response.build v s ops
    ((s ≠ .continue_ ∧ s ≠ .noContent) → r.contentLength.isSome = true) ∧
    (∀ b, r.body = some b → r.contentLength = some (asI32 b.length)) ∧
    (r.body = none → (r.contentLength = some 0 ∧ s ≠ .continue_ ∧ s ≠ .noContent) ∨
                      (r.contentLength = none ∧ (s = .continue_ ∨ s = .noContent))) := by
  exact ResponseLemmas.length_rule v s ops hops

/-- A response is self-delimiting when its server identity contains no CR LF and its length header
    (if any) equals the byte length of its body. -/
def SelfDelimiting (r : Response) : Prop :=
  noCRLF r.server = true ∧
  (match r.body with
   | none => r.contentLength = none ∨ r.contentLength = some 0
   | some b => r.contentLength = some (b.length : Int))

/-- Responses built through the public API with server identities free of CR LF and bodies
    shorter than 2³¹ bytes are self-delimiting. -/
theorem built_selfDelimiting (v : Version) (s : StatusCode) (ops : List BuildOp)
    (hops : ∀ op ∈ ops, BuildOp.plain op = true)
    (hsrv : ∀ sv, BuildOp.setServer sv ∈ ops → noCRLF sv = true)
    (hbody : ∀ b, BuildOp.setBody b ∈ ops → b.length < 2147483648) :
    SelfDelimiting (Response.build v s ops) := by
  exact ResponseLemmas.built_selfDelimiting v s ops hops hsrv hbody

def view (r : Response) : RespView := ⟨r.version.raw, r.status.raw, headerLines r, r.body.getD []⟩

/-- An independent reader recovers version, status code, header lines and body of every response,
    exactly, from any concatenation of self-delimiting responses. -/
theorem roundtrip (rs : List Response) (h : ∀ r ∈ rs, SelfDelimiting r) (fuel : Nat) (hfuel : rs.length < fuel) :
    readAll fuel (rs.flatMap Response.serialize) = (rs.map view, []) := by
  exact ReaderLemmas.roundtrip rs h fuel hfuel

/-- status and version are recovered unambiguously from the view -/
theorem view_status_version (r r' : Response) (h : view r = view r') :
    r.status = r'.status ∧ r.version = r'.version ∧ r.body.getD [] = r'.body.getD [] := by
  exact ResponseLemmas.view_status_version r r' h

/-- However the sink splits the writes (short writes, interrupts, failures), what it accepted is a
    prefix of the one-piece serialization, and all of it exactly when `write_all` reports success. -/
theorem sink_independent (r : Response) (sched : List SinkStep) :
    (r.writeAll sched).1 <+: r.serialize ∧
    ((r.writeAll sched).2 = true → (r.writeAll sched).1 = r.serialize) ∧
    ((r.writeAll sched).2 = false → (r.writeAll sched).1.length < r.serialize.length) := by
  exact ResponseLemmas.sink_independent r sched

example : SelfDelimiting ((Response.new .http11 .ok).apply (.setBody [0x0D, 0x0A, 0x0D, 0x0A, 0x48])) := by
  simp [SelfDelimiting, Response.new, Response.apply, noCRLF, asI32, DEFAULT_SERVER]; decide

end MicroHttp.C05
