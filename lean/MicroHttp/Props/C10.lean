/-
  C10 — at most 10 connections; excess get 503 and close; dead connections are reaped.
-/
import MicroHttp.ServerSpec
import MicroHttp.Proofs.SrvInv
namespace MicroHttp.C10
open MicroHttp

theorem inv_new : SrvInv Srv.new := by
  refine ⟨?_, ?_, ?_, ?_, ?_, ?_, ?_⟩ <;> simp [Srv.new, Srv.fds, Srv.insts]

/-- The server invariant — in particular `conns.length ≤ 10`, unique descriptors, live tokens —
    is preserved by a poll over ANY admissible batch of events with ANY read/write results. -/
theorem requests_inv (s : Srv) (h : SrvInv s) (evs : List Ev) (hev : EvsOK s evs) :
    SrvInv (requests s evs).1 := by
  exact requests_inv' s h evs hev

/-- … by responding to an outstanding token (A1: at most one response per yielded request) … -/
theorem respond_inv (s : Srv) (h : SrvInv s) (tok : Token) (htok : tok ∈ s.outstanding) (r : Response) :
    SrvInv (respond s tok r).1 := by
  exact respond_inv' s h tok htok r

/-- … and by flushing, whatever the writes return. -/
theorem flush_inv (s : Srv) (h : SrvInv s) (script : Nat → List SinkStep) :
    SrvInv (flush s script).1 := by
  exact flush_inv' s h script

/-- At capacity a connecting client is refused: it gets the fixed 503 message (effect `refused`),
    nothing is yielded, and no existing connection — no state of the server at all — changes. -/
theorem refuse_at_capacity (s : Srv) (newFd : Nat) (h : s.conns.length = MAX_CONNECTIONS) :
    handleEv s (.listener newFd) = (s, [], [.refused newFd], none) := by
  exact handleEv_listener_full s newFd h

/-- Below capacity it is accepted with a fresh identity, an empty connection and IN interest. -/
theorem accept_below_capacity (s : Srv) (newFd : Nat) (h : s.conns.length < MAX_CONNECTIONS) (hfd : newFd ∉ s.fds) :
    (handleEv s (.listener newFd)).1.conns =
      s.conns ++ [{ fd := newFd, inst := s.nextInst, conn := Conn.new s.limit }] := by
  rw [handleEv_listener_accept s newFd (by omega)]
  simp only
  rw [filter_fd_ne_of_not_mem s.conns newFd hfd]

/-- The 503 message: status 503, `Connection: close`, and a Content-Length equal to the length of
    its JSON body (40). -/
theorem server_full_message :
    ∃ head body, SERVER_FULL_ERROR_MESSAGE = head ++ CRLFCRLF ++ body ∧ body.length = 40 ∧
      find CRLFCRLF head = none ∧
      [0x48, 0x54, 0x54, 0x50, 0x2F, 0x31, 0x2E, 0x31, 0x20, 0x35, 0x30, 0x33] <+: head ∧
      [0x43, 0x6F, 0x6E, 0x74, 0x65, 0x6E, 0x74, 0x2D, 0x4C, 0x65, 0x6E, 0x67, 0x74, 0x68, 0x3A, 0x20, 0x34, 0x30] <:+ head := by
  refine ⟨SERVER_FULL_ERROR_MESSAGE.take 76, SERVER_FULL_ERROR_MESSAGE.drop 80, ?_, ?_, ?_, ?_, ?_⟩ <;> decide

/-- Reaping: after a completed poll no connection that is closed, has nothing left to write and
    no unanswered request survives — it is dropped (epoll_del + close) in that very call. -/
theorem reaped (s : Srv) (evs : List Ev) (reqs : List (Token × Request))
    (h : (requests s evs).2.1 = .ok reqs) :
    ∀ c ∈ (requests s evs).1.conns, c.isDone = false := by
  intro c hc
  cases ha : (runEvents s evs [] []).2.2.2 with
  | some a => rw [requests_eq_aborted s evs a ha] at h; cases h
  | none =>
    rw [requests_eq_ok s evs ha] at hc
    have := (List.mem_filter.mp hc).2
    simpa using this

/-- Under the invariant "closed" already implies "nothing left to write": a closed connection is
    released as soon as the application has answered what was yielded from it. -/
theorem closed_released_when_answered (s : Srv) (hI : SrvInv s) (evs : List Ev) (hev : EvsOK s evs)
    (reqs : List (Token × Request)) (h : (requests s evs).2.1 = .ok reqs) :
    ∀ c ∈ (requests s evs).1.conns, c.state = .closed → 0 < c.inflight := by
  intro c hc hcl
  have hinv := requests_inv' s hI evs hev
  have hnd := reaped s evs reqs h c hc
  have hnp := (hinv.clients c hc).nopending (by rw [hcl]; intro e; cases e)
  unfold Client.isDone at hnd
  simp only [hcl, hnp, decide_true, Bool.not_false, Bool.and_self, Bool.true_and, decide_eq_false_iff_not] at hnd
  omega

/-- Nothing else ever removes a connection: every connection that disappears in a poll was done,
    and is reported as dropped. -/
theorem only_done_are_dropped (s : Srv) :
    (sweep s).1.conns = s.conns.filter (fun c => !c.isDone) ∧
    (sweep s).2 = (s.conns.filter (fun c => c.isDone)).map (fun c => Effect.dropped c.fd c.inst) := by
  exact ⟨rfl, rfl⟩

end MicroHttp.C10
