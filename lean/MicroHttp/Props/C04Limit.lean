/-
  C04 / C03 (continued) — the payload limit changed on a connection in use.

  `HttpConnection::set_payload_max_size` is a public call that may come at any moment, also between two reads of
  one request (a seeded change made exactly that moment panic). The theorems say what such a call does and does
  not do: it changes the limit and nothing else — no parser state, no queued request, no output, no pending
  descriptor — it keeps the connection invariant (so with `C03.ops_safe` no later call can panic), and the NEXT
  read is exactly the byte-at-a-time automaton run with the NEW limit from the same abstract state: a request
  whose header block ends in or after that read is judged by the new limit, while a body already admitted keeps
  arriving (the automaton consults the limit only when a header block ends).
-/
import MicroHttp.Props.C01
import MicroHttp.Props.C03
namespace MicroHttp.C04
open MicroHttp
variable {RL H : Type}

/-- the call changes the limit and nothing else, and keeps the invariant -/
theorem setLimit_only_limit (P : Params RL H) (c : Conn RL H) (hI : Inv P c) (n : Nat) :
    Inv P (setLimit c n) ∧ (setLimit c n).limit = n ∧ absOf (setLimit c n) = absOf c ∧
    (setLimit c n).parsed = c.parsed ∧ (setLimit c n).files = c.files ∧
    (setLimit c n).respQ = c.respQ ∧ (setLimit c n).respBuf = c.respBuf ∧ (setLimit c n).win = c.win :=
  ⟨Inv_of_parser_eq P c _ hI rfl rfl rfl rfl rfl hI.rbuf, rfl, rfl, rfl, rfl, rfl, rfl, rfl⟩

/-- the next read after the call = the automaton with the NEW limit, from the same abstract state -/
theorem read_after_setLimit (P : Params RL H) (hP : P.WF) (c : Conn RL H) (hI : Inv P c) (n : Nat)
    (chunk : List Byte) (fds : List Nat) (hne : chunk ≠ [])
    (c' : Conn RL H) (out : ReadOut) (h : tryRead P (setLimit c n) (.data chunk fds) = (c', out))
    (outs : List (Out RL H)) (r : Except ReqErr (Abs RL H))
    (hf : feed P n (absOf c) (chunk.take (P.B - c.win.length)) = (outs, r)) :
    c'.parsed = c.parsed ++ attach (c.files ++ fds) (delivers outs) ∧
    c'.respQ = c.respQ ++ conts outs ∧ c'.respBuf = c.respBuf ∧ c'.limit = n ∧ Inv P c' ∧
    (match r with
     | .ok a => out = .ok ∧ absOf c' = a ∧
                c'.files = (if delivers outs = [] then c.files ++ fds else [])
     | .error e => out = .parseErr e ∧ ParserFresh c') := by
  have h0 := C01.tryRead_refines P hP (setLimit c n) (setLimit_only_limit P c hI n).1 chunk fds hne c' out h outs r hf
  cases r with
  | ok a => exact h0
  | error e => exact h0

/-- in particular: while a body is being staged, lowering the limit below what is already staged (even to 0) is
    harmless — the read that follows neither panics nor rejects; it stages or completes the body as before -/
theorem body_survives_lower_limit (P : Params RL H) (hP : P.WF) (c : Conn RL H) (hI : Inv P c) (n : Nat)
    (inp : Recv) : ∀ p, (tryRead P (setLimit c n) inp).2 ≠ .panic p :=
  (C03.tryRead_safe P hP (setLimit c n) (setLimit_only_limit P c hI n).1 inp).2

/-- non-vacuity: 3 of 5 body bytes staged under limit 10, the limit is set to 0, the remaining 2 bytes arrive:
    the request is delivered -/
example :
    let c0 : Conn0 := Conn.new 10
    let c1 := (tryRead P0 c0 (.data ([0x50, 0x55, 0x54, 0x20, 0x2F, 0x20, 0x48, 0x54, 0x54, 0x50, 0x2F, 0x31, 0x2E, 0x31, 0x0D, 0x0A,
        0x43, 0x6F, 0x6E, 0x74, 0x65, 0x6E, 0x74, 0x2D, 0x4C, 0x65, 0x6E, 0x67, 0x74, 0x68, 0x3A, 0x20, 0x35, 0x0D, 0x0A, 0x0D, 0x0A,
        0x61, 0x62, 0x63]) [])).1
    let c2 := (tryRead P0 (setLimit c1 0) (.data [0x64, 0x65] [])).1
    c1.parsed.length = 0 ∧ c1.bodyVec.length = 3 ∧ c2.parsed.length = 1 := by decide

end MicroHttp.C04
