/-
  C07 — a response is delivered only to the connection that sent its request, in order.
  Connections carry a ghost identity `inst` (fresh per accept); a token yielded to the application
  is (descriptor, identity). The real token is the descriptor number only — the theorems show that
  this is enough, because a descriptor cannot be reused while one of its tokens is outstanding.
-/
import MicroHttp.ServerSpec
import MicroHttp.Proofs.SrvRoute
namespace MicroHttp.C07
open MicroHttp

/-- Tokens are minted only for the connection instance whose input produced the request: every
    request yielded by a poll carries the descriptor and identity of a connection that existed when
    its event was handled, and is recorded as outstanding. -/
theorem yielded_tokens (s : Srv) (h : SrvInv s) (ev : Ev) (hev : EvOK s ev)
    (tok : Token) (r : Request) (hy : (tok, r) ∈ (handleEv s ev).2.1) :
    (∃ c ∈ s.conns, c.fd = tok.fd ∧ c.inst = tok.inst ∧ ∃ fl rd t w, ev = .client c.fd fl rd t w) ∧
    tok ∈ (handleEv s ev).1.outstanding := by
  have _ := h
  have _ := hev
  exact yielded_tokens' s ev tok r hy

/-- While a token is outstanding its connection instance stays in the table (it cannot be reaped,
    so its descriptor number cannot be handed out again by `accept` — E1): the descriptor in the
    token identifies the instance. -/
theorem outstanding_token_identifies (s : Srv) (h : SrvInv s) (tok : Token) (ht : tok ∈ s.outstanding) :
    ∃ c, findClient s.conns tok.fd = some c ∧ c.inst = tok.inst := by
  obtain ⟨c, _, hf, _, e2, _⟩ := h.token_client ht
  exact ⟨c, hf, e2⟩

/-- Routing: responding to an outstanding token enqueues the response into the connection
    instance that yielded it — at the END of that connection's queue (so responses leave in the
    order supplied) — unless that connection is closed, in which case it is dropped; every OTHER
    connection is left exactly as it was. -/
theorem respond_routes (s : Srv) (h : SrvInv s) (tok : Token) (ht : tok ∈ s.outstanding) (r : Response) :
    ∃ c, findClient s.conns tok.fd = some c ∧ c.inst = tok.inst ∧
      (∀ c' ∈ (respond s tok r).1.conns, c'.fd ≠ tok.fd → c' ∈ s.conns) ∧
      (∀ c', findClient (respond s tok r).1.conns tok.fd = some c' →
        c'.inst = tok.inst ∧
        c'.conn.respQ = (if c.state = .closed then c.conn.respQ else c.conn.respQ ++ [r]) ∧
        c'.conn.respBuf = c.conn.respBuf ∧ c'.inflight + 1 = c.inflight) ∧
      (respond s tok r).2.1 = .ok := by
  exact respond_routes' s h tok ht r

/-- A response for a request whose connection has gone (an id the table no longer holds — only
    possible for a token that is NOT outstanding, e.g. answered twice) is dropped: nothing changes. -/
theorem respond_unknown_dropped (s : Srv) (tok : Token) (r : Response) (hno : findClient s.conns tok.fd = none) :
    (respond s tok r).1.conns = s.conns ∧ (respond s tok r).2.2 = [] := by
  unfold respond
  simp only [hno, and_self]

/-- A response to a closed connection is dropped: nothing is enqueued anywhere. -/
theorem respond_closed_dropped (s : Srv) (h : SrvInv s) (tok : Token) (ht : tok ∈ s.outstanding) (r : Response)
    (c : Client) (hc : findClient s.conns tok.fd = some c) (hcl : c.state = .closed) :
    ∀ c' ∈ (respond s tok r).1.conns, ∃ c0 ∈ s.conns, c0.fd = c'.fd ∧ c'.conn = c0.conn := by
  exact respond_closed_dropped' s h tok ht r c hc hcl

/-- Frame: handling an event of one connection leaves every other connection untouched — what a
    client receives depends only on its own connection's queue. -/
theorem event_frame (s : Srv) (fd : Nat) (fl : EvFlags) (rd : Recv) (t : List Byte) (w : SinkStep)
    (c' : Client) (hc : c' ∈ (handleEv s (.client fd fl rd t w)).1.conns) (hne : c'.fd ≠ fd) :
    c' ∈ s.conns := by
  rcases handleEv_client_shape s fd fl rd t w with h | ⟨c, c'', toks, _, hfd, _, h⟩
  · rw [h] at hc; exact hc
  · rw [h] at hc
    rcases mem_replaceClient hc with ⟨rfl, _⟩ | ⟨hm, _⟩
    · exact absurd hfd hne
    · exact hm

/-- Bytes are written to a client only from its own connection's queue: a `wrote` effect of an
    event carries the descriptor and identity of the connection the event is for, and the bytes are
    the next unsent bytes of THAT connection. -/
theorem wrote_own_bytes (s : Srv) (h : SrvInv s) (ev : Ev) (hev : EvOK s ev) (fd inst : Nat) (bytes : List Byte)
    (hw : Effect.wrote fd inst bytes ∈ (handleEv s ev).2.2.1) :
    ∃ c ∈ s.conns, c.fd = fd ∧ c.inst = inst ∧
      bytes <+: ((c.conn.respBuf.getD []) ++ c.conn.respQ.flatMap Response.serialize) := by
  have _ := h
  have _ := hev
  exact wrote_own_bytes' s ev fd inst bytes hw

/-- Server-generated replies (400, 500) are enqueued into the connection whose own input caused
    them, and nowhere else. -/
theorem server_reply_to_own_input (c : Client) (rd : Recv) (t : List Byte) :
    let c' := (c.read rd t).1
    c'.fd = c.fd ∧ c'.inst = c.inst ∧
    (match (tryRead P0 c.conn rd).2 with
     | .parseErr e => c'.conn.respQ = (tryRead P0 c.conn rd).1.respQ ++
                        [(Response.new .http11 .badRequest).apply (.setBody (badRequestBody e))]
     | .streamErr _ => c'.conn.respQ = (tryRead P0 c.conn rd).1.respQ ++
                        [(Response.new .http11 .internalServerError).apply (.setBody t)]
     | _ => c'.conn.respQ = (tryRead P0 c.conn rd).1.respQ) := by
  refine ⟨Client.read_fd c rd t, Client.read_inst c rd t, ?_⟩
  rw [Client.read_eq]
  cases (tryRead P0 c.conn rd).2 <;> simp only [] <;> (try split) <;> rfl

end MicroHttp.C07
