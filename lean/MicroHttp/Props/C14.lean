/-
  C14 — one-shot request parsing agrees with the incremental connection parser.
  `Request.tryFrom` (request.rs) against the byte-at-a-time specification instantiated with the
  crate's own line parsers (`P0`); the connection is tied to that specification by C01.
-/
import MicroHttp.ConnSpec
import MicroHttp.Proofs.OneShotMain
namespace MicroHttp.C14
open MicroHttp

/-- the head of a request: everything up to and including the first blank line -/
def headOf (bs : List Byte) : List Byte :=
  match find CRLFCRLF bs with
  | some i => bs.take (i + 4)
  | none => bs

/-- every line of the head fits the connection's line limit (1024 bytes including CR LF) -/
def LinesWithin (bs : List Byte) : Prop := ∀ l ∈ splitCRLF (headOf bs), l.length + 2 ≤ P0.B

/-- Whenever the one-shot parser accepts a slice, the connection's specification (within the line
    and payload limits) delivers as its FIRST request one with identical method, URI, version,
    header values, custom headers and body. -/
theorem oneshot_sound (bs : List Byte) (r : Request) (L : Nat)
    (h : Request.tryFrom bs none = .ok r) (hl : LinesWithin bs) (hL : r.headers.contentLength ≤ L) :
    ∃ outs res, feed P0 L Abs.fresh bs = (outs, res) ∧ (delivers outs).head? = some r := by
  refine OneShotAgree.oneShot_to_conn bs r L h ?_ hL
  intro i hi l hm
  apply hl
  unfold headOf
  rw [hi]
  exact hm

/-- Conversely: whenever the specification turns a slice into exactly one request with nothing
    left over, the one-shot parser accepts the slice with the same result — except GET requests that
    declare a body, which only the one-shot parser rejects. -/
theorem conn_complete (bs : List Byte) (r : Request) (L : Nat) (outs : List (Out RequestLine Headers))
    (hf : feed P0 L Abs.fresh bs = (outs, .ok Abs.fresh)) (hd : delivers outs = [r])
    (hget : ¬ (r.line.method = .get ∧ r.headers.contentLength > 0)) :
    Request.tryFrom bs none = .ok r := by
  rw [OneShotAgree.conn_to_oneShot bs r L outs hf hd, if_neg hget]

/-- … and that exception is real: such a GET is rejected by the one-shot parser. -/
theorem get_with_body_rejected (bs : List Byte) (r : Request) (L : Nat) (outs : List (Out RequestLine Headers))
    (hf : feed P0 L Abs.fresh bs = (outs, .ok Abs.fresh)) (hd : delivers outs = [r])
    (hget : r.line.method = .get ∧ r.headers.contentLength > 0) :
    Request.tryFrom bs none = .error (.parse .invalidRequest) := by
  rw [OneShotAgree.conn_to_oneShot bs r L outs hf hd, if_pos hget]

/-- The caller's maximum: a slice whose length reaches it is rejected … -/
theorem max_rejects (bs : List Byte) (m : Nat) (h : bs.length ≥ m) :
    Request.tryFrom bs (some m) = .error (.parse .invalidRequest) := by
  unfold Request.tryFrom
  simp only [decide_eq_true h, if_true]

/-- … and below it the maximum is irrelevant. -/
theorem max_irrelevant (bs : List Byte) (m : Nat) (h : bs.length < m) :
    Request.tryFrom bs (some m) = Request.tryFrom bs none := by
  unfold Request.tryFrom
  have : decide (bs.length ≥ m) = false := decide_eq_false (by omega)
  simp only [this]

end MicroHttp.C14
