/-
  C18 — the shutdown request always wins: polling reports it and never blocks.
-/
import MicroHttp.ServerSpec
import MicroHttp.Proofs.SrvPoll
namespace MicroHttp.C18
open MicroHttp

/-- Once the kill-switch event is in the batch, the poll reports shutdown — in every server state
    (idle, partially received requests, unsent output, unanswered requests, at capacity with a
    client waiting) and whatever the other events of the batch are. -/
theorem kill_wins (s : Srv) (h : SrvInv s) (evs : List Ev) (hev : EvsOK s evs) (hk : Ev.kill ∈ evs) :
    (requests s evs).2.1 = .aborted .shutdown := by
  rcases requests_outcome s h evs hev with ⟨_, g⟩ | ⟨k, _⟩
  · exact g
  · exact absurd hk k

/-- It is always in the batch: under the invariant at most 10 connections are registered, so
    listener + kill switch + connections never exceed the 12 slots of the event array; with
    level-triggered epoll (E6) a signalled kill switch (E8) is therefore returned by every wait. -/
def registered (s : Srv) : Nat := 1 + (if s.hasKill then 1 else 0) + s.conns.length

theorem registered_fits_batch (s : Srv) (h : SrvInv s) : registered s ≤ MAX_CONNECTIONS + 2 := by
  have := h.cap
  unfold registered
  split <;> omega

/-- Before it is signalled its presence changes nothing: for a batch without the kill event the
    poll does exactly the same with and without a registered kill switch. -/
theorem transparent (s : Srv) (evs : List Ev) (hk : Ev.kill ∉ evs) (b : Bool) :
    (requests { s with hasKill := b } evs).2 = (requests s evs).2 ∧
    (requests { s with hasKill := b } evs).1.conns = (requests s evs).1.conns ∧
    (requests { s with hasKill := b } evs).1.outstanding = (requests s evs).1.outstanding := by
  rw [requests_setKill s evs hk b]
  exact ⟨rfl, rfl, rfl⟩

/-- The server never consumes the kill switch: handling events does not change whether it is
    registered, so it stays signalled (E8) and every later poll reports shutdown again. -/
theorem kill_switch_kept (s : Srv) (evs : List Ev) : (requests s evs).1.hasKill = s.hasKill := by
  exact requests_hasKill s evs

end MicroHttp.C18
