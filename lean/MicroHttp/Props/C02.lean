/-
  C02 — accepted requests are exactly those of the documented grammar, fields verbatim; otherwise
  the error names the first offending element in stream order.
  The statements are about the byte-at-a-time specification, to which every read schedule of the
  connection is tied by C01 (sched_refines / stream_determines).
-/
import MicroHttp.ConnSpec
import MicroHttp.Proofs.Feed
import MicroHttp.Proofs.ReqLine
import MicroHttp.Proofs.Grammar
import MicroHttp.Proofs.GrammarInv
namespace MicroHttp.C02
open MicroHttp
variable {RL H : Type}

/-! ### the request line -/

/-- the three parts of a request line with at least two SP: split at the first two SP -/
def parts3 (l : List Byte) : List Byte × List Byte × List Byte :=
  let m := l.takeWhile (· ≠ SP)
  let rest := l.drop (m.length + 1)
  let u := rest.takeWhile (· ≠ SP)
  (m, u, rest.drop (u.length + 1))

def spCount (l : List Byte) : Nat := l.count SP

/-- Within a request line the error names the first offending element: malformed shape (fewer
    than two SP), then method, then URI (empty, then not UTF-8), then version; otherwise the three
    parts are delivered verbatim. -/
theorem reqline_precedence (l : List Byte) :
    RequestLine.tryFrom l =
      if spCount l < 2 then .error (.parse .invalidRequest)
      else
        let (m, u, v) := parts3 l
        match Method.tryFrom m with
        | none => .error (.parse .invalidHttpMethod)
        | some method =>
          if u = [] then .error (.parse (.invalidUri .empty))
          else if isUtf8 u = false then .error (.parse (.invalidUri .notUtf8))
          else match Version.tryFrom v with
            | none => .error (.parse .invalidHttpVersion)
            | some version => .ok ⟨method, u, version⟩ :=
  ReqLine.reqline_precedence l

/-- A request line is accepted iff it is `METHOD SP URI SP VERSION` with a supported method, a
    non-empty UTF-8 URI without SP and a supported version — and then the fields are those bytes. -/
theorem reqline_accept_iff (l : List Byte) (rl : RequestLine) :
    RequestLine.tryFrom l = .ok rl ↔
      (l = rl.method.raw ++ [SP] ++ rl.uri ++ [SP] ++ rl.version.raw ∧
       rl.uri ≠ [] ∧ SP ∉ rl.uri ∧ isUtf8 rl.uri = true) :=
  ReqLine.reqline_accept_iff l rl

/-! ### whole requests -/

/-- fold header lines with the connection's rule (`UnsupportedValue` ignored, other errors fatal) -/
def foldHL (P : Params RL H) : H → List (List Byte) → Except ReqErr H
  | h, [] => .ok h
  | h, l :: ls =>
    match P.parseHL h l with
    | .error e => .error e
    | .ok h' => foldHL P h' ls

/-- bridge to the copy of `foldHL` the helper lemmas are stated with -/
theorem foldHL_eq (P : Params RL H) (h : H) (ls : List (List Byte)) :
    Grammar.foldHL P h ls = foldHL P h ls := by
  induction ls generalizing h with
  | nil => rfl
  | cons l ls ih =>
    simp only [foldHL, Grammar.foldHL]
    cases P.parseHL h l with
    | error e => rfl
    | ok h' => exact ih h'

/-- a line as it appears in the grammar: no CR LF inside, and short enough with its CR LF -/
def LineOK (P : Params RL H) (l : List Byte) : Prop := find CRLF l = none ∧ l.length + 2 ≤ P.B

/-- `METHOD SP URI SP VERSION CRLF *(header CRLF) CRLF body` -/
def requestBytes (rlLine : List Byte) (hdrLines : List (List Byte)) (body : List Byte) : List Byte :=
  rlLine ++ CRLF ++ (hdrLines.map (· ++ CRLF)).flatten ++ CRLF ++ body

/-- "If": bytes of the grammar — an acceptable request line, acceptable non-empty header lines,
    every line within the line limit, a declared length within the payload limit and a body of
    exactly that many bytes — are delivered as exactly one request whose request line, headers
    and body are those pieces (the body verbatim, whatever bytes it contains), with the interim
    response iff asked for, and the automaton is ready for the next request. -/
theorem grammar_accepted (P : Params RL H) (hP : P.WF) (L : Nat)
    (rlLine : List Byte) (hdrLines : List (List Byte)) (body : List Byte) (rl : RL) (h : H)
    (hrl : P.parseRL rlLine = .ok rl) (hrlOK : LineOK P rlLine)
    (hlines : ∀ l ∈ hdrLines, l ≠ [] ∧ LineOK P l)
    (hfold : foldHL P P.h0 hdrLines = .ok h)
    (hL : P.clen h ≤ L) (hbody : body.length = P.clen h) :
    feed P L Abs.fresh (requestBytes rlLine hdrLines body) =
      ((if P.expect h = true ∧ 0 < P.clen h then [Out.cont (P.contOf rl)] else []) ++
        [Out.deliver ⟨rl, h, if P.clen h = 0 then none else some body, []⟩],
       .ok Abs.fresh) :=
  Grammar.grammar_accepted P hP L rlLine hdrLines body rl h hrl hrlOK hlines
    ((foldHL_eq P _ _).trans hfold) hL hbody

/-- "Only if": whenever the automaton, started fresh, delivers exactly one request from `bs` and
    ends ready for the next request with nothing left over, `bs` is a request of the grammar and
    the delivered fields are exactly its pieces. -/
theorem delivered_is_grammar (P : Params RL H) (hP : P.WF) (L : Nat) (bs : List Byte)
    (outs : List (Out RL H)) (r : Req RL H)
    (hf : feed P L Abs.fresh bs = (outs, .ok Abs.fresh)) (hd : delivers outs = [r]) :
    ∃ rlLine hdrLines body,
      bs = requestBytes rlLine hdrLines body ∧
      P.parseRL rlLine = .ok r.line ∧ LineOK P rlLine ∧
      (∀ l ∈ hdrLines, l ≠ [] ∧ LineOK P l) ∧
      foldHL P P.h0 hdrLines = .ok r.headers ∧
      P.clen r.headers ≤ L ∧ body.length = P.clen r.headers ∧
      r.body = (if P.clen r.headers = 0 then none else some body) ∧ r.files = [] := by
  obtain ⟨rlLine, hdrLines, body, h1, h2, h3, h4, h5, h6⟩ :=
    Grammar.delivered_is_grammar P hP L bs outs r hf hd
  exact ⟨rlLine, hdrLines, body, h1, h2, h3, h4, (foldHL_eq P _ _).symm.trans h5, h6⟩

/-- Requests that precede the first offending element are all delivered, and the error is the
    one the offending remainder produces on its own: a stream consisting of complete grammar
    requests followed by anything behaves as the deliveries of those requests followed by the
    behaviour of the remainder from a fresh state. -/
theorem prefix_requests_delivered (P : Params RL H) (L : Nat) (good rest : List Byte)
    (outs : List (Out RL H)) (hgood : feed P L Abs.fresh good = (outs, .ok Abs.fresh)) :
    feed P L Abs.fresh (good ++ rest) =
      (outs ++ (feed P L Abs.fresh rest).1, (feed P L Abs.fresh rest).2) :=
  feed_append_ok P L Abs.fresh Abs.fresh good rest outs hgood

/-- Errors inside the header block: the first fatal header line (in stream order) decides. -/
theorem first_bad_header_decides (P : Params RL H) (hP : P.WF) (L : Nat) (r : Req RL H)
    (good : List (List Byte)) (bad rest : List Byte) (h' : H) (e : ReqErr)
    (hgood : ∀ l ∈ good, l ≠ [] ∧ LineOK P l) (hfold : foldHL P r.headers good = .ok h')
    (hbadOK : bad ≠ [] ∧ LineOK P bad) (hbad : P.parseHL h' bad = .error e) :
    feed P L ⟨.hdrs r, []⟩ ((good.map (· ++ CRLF)).flatten ++ bad ++ CRLF ++ rest) = ([], .error e) :=
  have _ := hP
  Grammar.first_bad_header_decides P L r good bad rest h' e hgood
    ((foldHL_eq P _ _).trans hfold) hbadOK hbad

example : RequestLine.tryFrom [0x47, 0x45, 0x54, 0x20, 0x2F, 0x20, 0x48, 0x54, 0x54, 0x50, 0x2F, 0x31, 0x2E, 0x31]
    = .ok ⟨.get, [0x2F], .http11⟩ := by rfl

end MicroHttp.C02
