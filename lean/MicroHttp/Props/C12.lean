/-
  C12 — descriptors passed with a request are delivered once, in order, never leaked.
  Descriptors are opaque tokens; ownership is: the connection (`c.files`), a parsed request still
  queued (`c.parsed`), or a request already popped by the application.
-/
import MicroHttp.ConnSpec
import MicroHttp.Proofs.Descriptors
namespace MicroHttp.C12
open MicroHttp
variable {RL H : Type}

def filesOf (rs : List (Req RL H)) : List Nat := rs.flatMap (·.files)

/-- A read that completes requests r₁ … r_m hands every descriptor on hand (those kept from
    earlier reads, then those that arrived with this read, in arrival order) to r₁; r₂ … r_m get
    none and the connection keeps none. A read that completes no request keeps them all. -/
theorem first_completer (P : Params RL H) (hP : P.WF) (c : Conn RL H) (hI : Inv P c)
    (chunk : List Byte) (fds : List Nat) (hne : chunk ≠ [])
    (c' : Conn RL H) (h : tryRead P c (.data chunk fds) = (c', .ok)) :
    ∃ new : List (Req RL H), c'.parsed = c.parsed ++ new ∧
      (new = [] → c'.files = c.files ++ fds) ∧
      (∀ r rs, new = r :: rs → r.files = c.files ++ fds ∧ (∀ x ∈ rs, x.files = []) ∧ c'.files = []) := by
  exact first_completer' P hP c hI chunk fds hne c' h

/-- The read that hits end-of-stream keeps the descriptors that came with it. -/
theorem eof_keeps (P : Params RL H) (c : Conn RL H) (hI : Inv P c) (fds : List Nat) :
    (tryRead P c (.data [] fds)).1.files = c.files ++ fds ∧ (tryRead P c (.data [] fds)).1.parsed = c.parsed := by
  exact eof_keeps' P c hI fds

/-- A failed read receives no descriptors and changes no ownership. -/
theorem failed_read_keeps (P : Params RL H) (c : Conn RL H) (hI : Inv P c) (e : Nat) :
    (tryRead P c (.err e)).1.files = c.files ∧ (tryRead P c (.err e)).1.parsed = c.parsed := by
  exact failed_read_keeps' P c hI e

/-- the reads of an error-free run: data with descriptors, end-of-stream with descriptors, failures -/
def arrivals : List Recv → List Nat
  | [] => []
  | .data _ fds :: is => fds ++ arrivals is
  | .err _ :: is => arrivals is

def runReads (P : Params RL H) : Conn RL H → List Recv → Conn RL H × Bool
  | c, [] => (c, true)
  | c, i :: is =>
    match tryRead P c i with
    | (c', .parseErr _) => (c', false)
    | (c', .panic _) => (c', false)
    | (c', _) => runReads P c' is

/-- Conservation, for every stream, segmentation and distribution of descriptors over reads on
    a connection whose input parses without error: the descriptors owned by queued requests (in
    queue order) followed by those still held by the connection are exactly all descriptors received,
    in arrival order — each exactly once, none lost, none duplicated, none reordered. -/
theorem conservation (P : Params RL H) (hP : P.WF) (L : Nat) (inputs : List Recv) (c : Conn RL H)
    (h : runReads P (Conn.new L) inputs = (c, true)) :
    filesOf c.parsed ++ c.files = arrivals inputs := by
  have harr : ∀ (i : Recv) (is : List Recv), arrivals (i :: is) = fdsOf i ++ arrivals is := by
    intro i is; cases i <;> rfl
  have gen : ∀ (inputs : List Recv) (c0 : Conn RL H), Inv P c0 → ∀ c, runReads P c0 inputs = (c, true) →
      filesOf c.parsed ++ c.files = filesOf c0.parsed ++ c0.files ++ arrivals inputs := by
    intro inputs
    induction inputs with
    | nil =>
      intro c0 _ c h
      simp only [runReads, Prod.mk.injEq, and_true] at h
      subst h
      simp [arrivals]
    | cons i is ih =>
      intro c0 hI c h
      simp only [runReads] at h
      cases htr : tryRead P c0 i with
      | mk c1 out =>
        rw [htr] at h
        have step : (∀ e, out ≠ .parseErr e) → runReads P c1 is = (c, true) →
            filesOf c.parsed ++ c.files = filesOf c0.parsed ++ c0.files ++ arrivals (i :: is) := by
          intro hnp h
          obtain ⟨s1, s2⟩ := step_conserve P hP c0 hI i c1 out htr hnp
          rw [ih c1 s1 c h, harr, ← List.append_assoc]
          exact congrArg (· ++ arrivals is) s2
        cases out with
        | parseErr e => simp at h
        | panic p => simp at h
        | ok => exact step (by intro e h'; cases h') h
        | closed => exact step (by intro e h'; cases h') h
        | streamErr n => exact step (by intro e h'; cases h') h
  have := gen inputs (Conn.new L) (inv_new' P hP L) c h
  simpa [Conn.new, filesOf] using this

/-- Popping a request moves its descriptors, with it, out of the connection; nothing else moves. -/
theorem pop_moves (c : Conn RL H) (r : Req RL H) (c' : Conn RL H) (h : popParsed c = (c', some r)) :
    filesOf c.parsed = r.files ++ filesOf c'.parsed ∧ c'.files = c.files := by
  exact pop_moves' c r c' h

end MicroHttp.C12
