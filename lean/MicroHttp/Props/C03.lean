/-
  C03 — no input makes a parsing entry point panic, hang or block.
  In the model every slice / unwrap / drain / unchecked subtraction is a checked operation whose
  failure is an explicit `panic` outcome and every loop has fuel whose exhaustion is `panic .fuel`;
  "returns a value or an error" is therefore the statement "the outcome is never `panic`".
  One receive per read / one write per write call hold by construction of the model's signatures
  (`tryRead` takes the result of a single `recv`, `tryWrite` of a single `write`) and are checked on the
  implementation by the harness's call counters.
-/
import MicroHttp.ConnSpec
import MicroHttp.Proofs.Safe
import MicroHttp.Proofs.OneShot
namespace MicroHttp.C03
open MicroHttp
variable {RL H : Type}

/-- The crate's own parameters satisfy the assumptions of the generic theorems:
    in particular `RequestLine::try_from` never panics. -/
theorem P0_wf : P0.WF := by
  exact ⟨by decide, fun l p => requestLine_no_panic' l p⟩

theorem inv_new (P : Params RL H) (hP : P.WF) (L : Nat) : Inv P (Conn.new L : Conn RL H) := by
  exact inv_new' P hP L

/-- `try_read` on any input, in any state allowed by the invariant (including right after it
    reported an error): invariant kept, never a panic, never out of fuel. -/
theorem tryRead_safe (P : Params RL H) (hP : P.WF) (c : Conn RL H) (hI : Inv P c) (inp : Recv) :
    Inv P (tryRead P c inp).1 ∧ ∀ p, (tryRead P c inp).2 ≠ .panic p := by
  exact tryRead_safe' P hP c hI inp

theorem tryWrite_inv (P : Params RL H) (c : Conn RL H) (hI : Inv P c) (w : SinkStep) :
    Inv P (tryWrite c w).1 := by
  exact tryWrite_inv' P c hI w

/-- the public operations of a connection -/
inductive Op
  | read (inp : Recv) | write (w : SinkStep) | enq (r : Response) | pop | clear | setLimit (n : Nat)

def applyOp (P : Params RL H) (c : Conn RL H) : Op → Conn RL H × Bool   -- Bool: the call panicked
  | .read inp => let (c', o) := tryRead P c inp; (c', match o with | .panic _ => true | _ => false)
  | .write w => ((tryWrite c w).1, false)
  | .enq r => (enqueue c r, false)
  | .pop => ((popParsed c).1, false)
  | .clear => (clearWrite c, false)
  | .setLimit n => (setLimit c n, false)

def runOps (P : Params RL H) : Conn RL H → List Op → Conn RL H × Bool
  | c, [] => (c, false)
  | c, op :: ops =>
    let (c', p) := applyOp P c op
    let (c'', p') := runOps P c' ops
    (c'', p || p')

/-- Any sequence of public calls on a new connection — arbitrary bytes, arbitrary read results,
    continued use after `ParseError`, `StreamReadError`, `ConnectionClosed`, the payload limit changed at
    any moment (also in the middle of a body) — never panics and keeps the invariant. -/
theorem ops_safe (P : Params RL H) (hP : P.WF) (L : Nat) (ops : List Op) :
    Inv P (runOps P (Conn.new L) ops).1 ∧ (runOps P (Conn.new L) ops).2 = false := by
  have gen : ∀ (ops : List Op) (c : Conn RL H), Inv P c →
      Inv P (runOps P c ops).1 ∧ (runOps P c ops).2 = false := by
    intro ops
    induction ops with
    | nil => intro c hI; exact ⟨hI, rfl⟩
    | cons op ops ih =>
      intro c hI
      have hstep : Inv P (applyOp P c op).1 ∧ (applyOp P c op).2 = false := by
        cases op with
        | read inp =>
          have hs := tryRead_safe' P hP c hI inp
          simp only [applyOp]
          refine ⟨hs.1, ?_⟩
          cases ho : (tryRead P c inp).2 with
          | panic p => exact absurd ho (hs.2 p)
          | ok => rfl
          | closed => rfl
          | streamErr e => rfl
          | parseErr e => rfl
        | write w => exact ⟨tryWrite_inv' P c hI w, rfl⟩
        | enq r => exact ⟨enqueue_inv P c hI r, rfl⟩
        | pop => exact ⟨popParsed_inv P c hI, rfl⟩
        | clear => exact ⟨clearWrite_inv P c hI, rfl⟩
        | setLimit n => exact ⟨Inv_of_parser_eq P c _ hI rfl rfl rfl rfl rfl hI.rbuf, rfl⟩
      have hrec := ih (applyOp P c op).1 hstep.1
      simp only [runOps]
      exact ⟨hrec.1, by rw [hstep.2, hrec.2]; rfl⟩
  exact gen ops (Conn.new L) (inv_new' P hP L)

/-- The one-shot parser never panics (in particular `headers_end - CRLF_LEN` cannot underflow). -/
theorem oneShot_no_panic (bs : List Byte) (maxLen : Option Nat) (p : Panic) :
    Request.tryFrom bs maxLen ≠ .error (.panic p) := by
  exact oneShot_no_panic' bs maxLen p

theorem requestLine_no_panic (l : List Byte) (p : Panic) : RequestLine.tryFrom l ≠ .error (.panic p) := by
  exact requestLine_no_panic' l p

end MicroHttp.C03
