/-
  C06 — queued responses reach the stream completely, once, in order, under short writes.
-/
import MicroHttp.ConnSpec
namespace MicroHttp.C06
open MicroHttp
variable {RL H : Type}

/-- the bytes still to be handed to the stream, in order -/
def unsent (c : Conn RL H) : List Byte := (c.respBuf.getD []) ++ c.respQ.flatMap Response.serialize

/-- Pending output is reported exactly while some byte remains unsent. -/
theorem pending_iff (P : Params RL H) (c : Conn RL H) (hI : Inv P c) :
    pendingWrite c = true ↔ unsent c ≠ [] := by
  sorry

theorem enqueue_unsent (c : Conn RL H) (r : Response) :
    unsent (enqueue c r) = unsent c ++ r.serialize := by
  sorry

/-- One `try_write`, whatever the stream does with the single `write` call:
    * success (incl. a short or interrupted write): the accepted bytes are exactly the next
      unsent bytes — nothing lost, duplicated or reordered;
    * zero bytes written or a non-interrupt error: everything pending is discarded, `closed`;
    * nothing pending: `invalid write`, the stream is not touched, nothing changes. -/
theorem tryWrite_spec (P : Params RL H) (c : Conn RL H) (hI : Inv P c) (w : SinkStep)
    (c' : Conn RL H) (out : WriteOut) (bytes : List Byte) (called : Bool)
    (h : tryWrite c w = (c', out, bytes, called)) :
    (out = .ok → bytes ++ unsent c' = unsent c ∧ called = true ∧ unsent c ≠ []) ∧
    (out = .closed → unsent c' = [] ∧ bytes = [] ∧ called = true ∧ pendingWrite c' = false) ∧
    (out = .invalidWrite → c' = c ∧ bytes = [] ∧ called = false ∧ unsent c = []) ∧
    (unsent c = [] → out = .invalidWrite) ∧
    (∀ k, w = .accept k → unsent c ≠ [] → out = .ok ∧ bytes ≠ []) ∧
    (w = .interrupted → unsent c ≠ [] → out = .ok ∧ bytes = []) ∧
    ((w = .zero ∨ w = .fail) → unsent c ≠ [] → out = .closed) := by
  sorry

/-- enqueue / write operations on the output side -/
inductive WOp
  | enq (r : Response)
  | write (w : SinkStep)

/-- Ghost bookkeeping over a history: `sent` = bytes the stream accepted and `queued` = serialized
    responses enqueued, both since the last discard (a failed write discards the queue). -/
def runW : Conn RL H → List Byte → List Byte → List WOp → Conn RL H × List Byte × List Byte
  | c, sent, queued, [] => (c, sent, queued)
  | c, sent, queued, .enq r :: ops => runW (enqueue c r) sent (queued ++ r.serialize) ops
  | c, sent, queued, .write w :: ops =>
    match tryWrite c w with
    | (c', .closed, _, _) => runW c' [] [] ops
    | (c', _, bytes, _) => runW c' (sent ++ bytes) queued ops

/-- For ANY sequence of enqueues and writes and ANY behaviour of the stream per write call, the
    bytes accepted so far followed by the unsent bytes are exactly the concatenation of the
    serialized responses in enqueue order; in particular the accepted bytes are a prefix of it. -/
theorem history_prefix (P : Params RL H) (L : Nat) (ops : List WOp)
    (c : Conn RL H) (sent queued : List Byte) (h : runW (Conn.new L : Conn RL H) [] [] ops = (c, sent, queued)) :
    sent ++ unsent c = queued ∧ sent <+: queued ∧ (pendingWrite c = true ↔ sent ≠ queued) := by
  sorry

example : unsent (enqueue (Conn.new 0 : Conn0) (Response.new .http11 .ok)) ≠ [] := by decide

end MicroHttp.C06
