/-
  C06 — queued responses reach the stream completely, once, in order, under short writes.
-/
import MicroHttp.ConnSpec
import MicroHttp.Proofs.WriteSide
namespace MicroHttp.C06
open MicroHttp
variable {RL H : Type}

/-- the bytes still to be handed to the stream, in order -/
def unsent (c : Conn RL H) : List Byte := (c.respBuf.getD []) ++ c.respQ.flatMap Response.serialize

/-- Pending output is reported exactly while some byte remains unsent. -/
theorem pending_iff (P : Params RL H) (c : Conn RL H) (hI : Inv P c) :
    pendingWrite c = true ↔ unsent c ≠ [] := by
  exact pending_iff' c hI.rbuf

theorem enqueue_unsent (c : Conn RL H) (r : Response) :
    unsent (enqueue c r) = unsent c ++ r.serialize := by
  exact enqueue_unsent' c r

/-- One `try_write`, whatever the stream does with the single `write` call:
    * success (incl. a short or interrupted write): the accepted bytes are exactly the next
      unsent bytes — nothing lost, duplicated or reordered;
    * zero bytes written or a non-interrupt error: everything pending is discarded, `closed`;
    * nothing pending: `invalid write`, the stream is not touched, nothing changes. -/
theorem tryWrite_spec (P : Params RL H) (c : Conn RL H) (hI : Inv P c) (w : SinkStep)
    (c' : Conn RL H) (out : WriteOut) (bytes : List Byte) (called : Bool)
    (h : tryWrite c w = (c', out, bytes, called)) :
    (out = .ok → bytes ++ unsent c' = unsent c ∧ called = true ∧ unsent c ≠ []) ∧
    (out = .closed → unsent c' = [] ∧ bytes = [] ∧ called = true ∧ pendingWrite c' = false) ∧
    (out = .invalidWrite → c' = c ∧ bytes = [] ∧ called = false ∧ unsent c = []) ∧
    (unsent c = [] → out = .invalidWrite) ∧
    (∀ k, w = .accept k → unsent c ≠ [] → out = .ok ∧ bytes ≠ []) ∧
    (w = .interrupted → unsent c ≠ [] → out = .ok ∧ bytes = []) ∧
    ((w = .zero ∨ w = .fail) → unsent c ≠ [] → out = .closed) := by
  obtain ⟨s1, s2, s3, s4, s5, s6, s7, _⟩ := tryWrite_spec' c hI.rbuf w c' out bytes called h
  exact ⟨s1, s2, s3, s4, s5, s6, s7⟩

/-- enqueue / write operations on the output side -/
inductive WOp
  | enq (r : Response)
  | write (w : SinkStep)

/-- Ghost bookkeeping over a history: `sent` = bytes the stream accepted and `queued` = serialized
    responses enqueued, both since the last discard (a failed write discards the queue). -/
def runW : Conn RL H → List Byte → List Byte → List WOp → Conn RL H × List Byte × List Byte
  | c, sent, queued, [] => (c, sent, queued)
  | c, sent, queued, .enq r :: ops => runW (enqueue c r) sent (queued ++ r.serialize) ops
  | c, sent, queued, .write w :: ops =>
    match tryWrite c w with
    | (c', .closed, _, _) => runW c' [] [] ops
    | (c', _, bytes, _) => runW c' (sent ++ bytes) queued ops

/-- For ANY sequence of enqueues and writes and ANY behaviour of the stream per write call, the
    bytes accepted so far followed by the unsent bytes are exactly the concatenation of the
    serialized responses in enqueue order; in particular the accepted bytes are a prefix of it. -/
theorem history_prefix (P : Params RL H) (L : Nat) (ops : List WOp)
    (c : Conn RL H) (sent queued : List Byte) (h : runW (Conn.new L : Conn RL H) [] [] ops = (c, sent, queued)) :
    sent ++ unsent c = queued ∧ sent <+: queued ∧ (pendingWrite c = true ↔ sent ≠ queued) := by
  have _ := P  -- (the statement's `P` is not needed: only the `rbuf` clause of the invariant matters)
  have gen : ∀ (ops : List WOp) (c0 : Conn RL H) (s0 q0 : List Byte), RB c0 → s0 ++ unsent c0 = q0 →
      ∀ c sent queued, runW c0 s0 q0 ops = (c, sent, queued) → sent ++ unsent c = queued ∧ RB c := by
    intro ops
    induction ops with
    | nil =>
      intro c0 s0 q0 hR hs c sent queued h
      simp only [runW, Prod.mk.injEq] at h
      obtain ⟨rfl, rfl, rfl⟩ := h
      exact ⟨hs, hR⟩
    | cons op ops ih =>
      intro c0 s0 q0 hR hs c sent queued h
      cases op with
      | enq r =>
        simp only [runW] at h
        refine ih _ _ _ (RB_enqueue c0 r hR) ?_ c sent queued h
        show s0 ++ unsent' (enqueue c0 r) = _
        rw [enqueue_unsent', ← List.append_assoc]
        exact congrArg (· ++ r.serialize) hs
      | write w =>
        simp only [runW] at h
        cases htw : tryWrite c0 w with
        | mk c1 rest =>
          obtain ⟨out, bytes, called⟩ := rest
          rw [htw] at h
          obtain ⟨k1, k2, k3⟩ := write_step_hist c0 hR w s0 q0 hs c1 out bytes called htw
          cases out with
          | closed =>
            simp only at h
            exact ih c1 [] [] k1 (by rw [List.nil_append]; exact k2 rfl) c sent queued h
          | ok =>
            simp only at h
            exact ih c1 _ _ k1 (k3 (by simp)) c sent queued h
          | invalidWrite =>
            simp only at h
            exact ih c1 _ _ k1 (k3 (by simp)) c sent queued h
  obtain ⟨g1, g2⟩ := gen ops (Conn.new L) [] [] (RB_new L) (by simp [unsent, Conn.new]) c sent queued h
  obtain ⟨g3, g4⟩ := hist_final c g2 sent queued g1
  exact ⟨g1, g3, g4⟩

example : unsent (enqueue (Conn.new 0 : Conn0) (Response.new .http11 .ok)) ≠ [] := by decide

end MicroHttp.C06
