/-
  C08, liveness half — no stall, no spin, finitely many polls — over the kernel model of
  `MicroHttp/Kernel.lean` (level-triggered readiness over the server's interest set; an assumption
  about the environment, see that file). Safety half: `Props/C08.lean`.
-/
import MicroHttp.Kernel
import MicroHttp.Proofs.KernelBasic
import MicroHttp.Proofs.KernelPoll
import MicroHttp.Proofs.KernelMeasure
namespace MicroHttp.C08
open MicroHttp

/-- No spin: once no client input, no unsent output and no pending connect remains, and every
    connection is registered for input, the epoll descriptor does not signal. -/
theorem no_spin (w : World) (hw : w.WellBehaved) (hb : w.backlog = [])
    (hq : ∀ c ∈ w.srv.conns, (w.sock c.fd).unread = [] ∧ c.interest = .inn) :
    w.ready = false := by
  exact no_spin' w hw hb hq

/-- No lost wake-up: under the server invariant, whenever there is something the server can do —
    a pending connect, unread input on a connection that waits for input, unsent output on a
    connection whose socket has room — the epoll descriptor signals. -/
theorem no_lost_wakeup (w : World) (h : SrvInv w.srv)
    (hwork : w.backlog ≠ [] ∨
      ∃ c ∈ w.srv.conns,
        ((w.sock c.fd).unread ≠ [] ∧ c.interest = .inn) ∨
        (pendingWrite c.conn = true ∧ 0 < (w.sock c.fd).space)) :
    w.ready = true := by
  exact no_lost_wakeup' w h hwork

/-- No stall: if the epoll descriptor is silent (and every socket has room), then nothing the
    server could do is outstanding: no pending connect, no unread input, no unsent output — only the
    application's answers are awaited. -/
theorem silent_means_idle (w : World) (h : SrvInv w.srv) (hs : w.ready = false)
    (hroom : ∀ c ∈ w.srv.conns, 0 < (w.sock c.fd).space) :
    w.backlog = [] ∧ ∀ c ∈ w.srv.conns, (w.sock c.fd).unread = [] ∧ pendingWrite c.conn = false ∧ c.interest = .inn := by
  exact silent_means_idle' w h hs hroom

/-- The batch the kernel returns is admissible (E1/E6 hold for it) in a well-behaved world. -/
theorem batch_admissible (w : World) (h : SrvInv w.srv) (hw : w.WellBehaved) : EvsOK w.srv w.batch := by
  exact batch_admissible' w h hw

/-- Polling a well-behaved world never fails, and keeps the invariant and well-behavedness. -/
theorem poll_ok (w : World) (h : SrvInv w.srv) (hw : w.WellBehaved) :
    (∃ reqs, w.poll.2 = .ok reqs) ∧ SrvInv w.poll.1.srv ∧ w.poll.1.WellBehaved := by
  exact poll_ok' w h hw

/-- Progress: every poll made when the epoll descriptor signals strictly decreases the work
    measure (pending connects + unread bytes, then unsent bytes, then stale registrations) in the
    lexicographic order — so between two actions of clients or application only finitely many
    polls can happen, after which the descriptor is silent (`silent_means_idle`). -/
theorem poll_progress (w : World) (h : SrvInv w.srv) (hw : w.WellBehaved) (hr : w.ready = true) :
    lexLt w.poll.1.measure w.measure := by
  exact poll_progress' w h hw hr

/-- the lexicographic order used above is well-founded -/
theorem lexLt_wf : WellFounded lexLt := by
  exact lexLt_wf'

end MicroHttp.C08

namespace MicroHttp.C08
open MicroHttp

/-- `n` consecutive polls (no client or application action in between) -/
def pollN : Nat → World → World
  | 0, w => w
  | n + 1, w => pollN n w.poll.1

/-- Finitely many polls: from every well-behaved world that satisfies the server invariant, polling only while
    the epoll descriptor signals comes to an end — there is a number `n` of polls, each made on a signalling
    descriptor and none of them failing, after which the descriptor is silent; invariant and well-behavedness
    still hold there. (`poll_progress` + well-foundedness of the measure, by well-founded induction.) -/
theorem finitely_many_polls (w : World) (h : SrvInv w.srv) (hw : w.WellBehaved) :
    ∃ n, (pollN n w).ready = false ∧ (∀ k, k < n → (pollN k w).ready = true) ∧
         SrvInv (pollN n w).srv ∧ (pollN n w).WellBehaved := by
  have key : ∀ m : Nat × Nat × Nat, ∀ w : World, w.measure = m → SrvInv w.srv → w.WellBehaved →
      ∃ n, (pollN n w).ready = false ∧ (∀ k, k < n → (pollN k w).ready = true) ∧
           SrvInv (pollN n w).srv ∧ (pollN n w).WellBehaved := by
    intro m
    induction m using lexLt_wf.induction with
    | _ m ih =>
      intro w hm h hw
      cases hr : w.ready with
      | false => exact ⟨0, hr, fun k hk => absurd hk (Nat.not_lt_zero k), h, hw⟩
      | true =>
        obtain ⟨_, h', hw'⟩ := poll_ok w h hw
        have hlt := poll_progress w h hw hr
        rw [hm] at hlt
        obtain ⟨n, g1, g2, g3, g4⟩ := ih w.poll.1.measure hlt w.poll.1 rfl h' hw'
        refine ⟨n + 1, g1, ?_, g3, g4⟩
        intro k hk
        cases k with
        | zero => exact hr
        | succ k => exact g2 k (Nat.lt_of_succ_lt_succ hk)
  exact key w.measure w rfl h hw

/-- … and where polling stops nothing the server could do is left (given room in the sockets): no pending
    connect, no unread client input, no unsent output, every connection registered for input — only client or
    application actions can create new work. Together: no stall, no spin, finitely many calls. -/
theorem polls_end_idle (w : World) (h : SrvInv w.srv) (hw : w.WellBehaved) :
    ∃ n, (pollN n w).ready = false ∧
      ((∀ c ∈ (pollN n w).srv.conns, 0 < ((pollN n w).sock c.fd).space) →
        (pollN n w).backlog = [] ∧
        ∀ c ∈ (pollN n w).srv.conns, ((pollN n w).sock c.fd).unread = [] ∧ pendingWrite c.conn = false ∧ c.interest = .inn) := by
  obtain ⟨n, g1, _, g3, _⟩ := finitely_many_polls w h hw
  exact ⟨n, g1, fun hroom => silent_means_idle (pollN n w) g3 g1 hroom⟩

end MicroHttp.C08
