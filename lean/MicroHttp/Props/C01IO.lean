/-
  C01 / C02 (continued) — the input side of a connection does not depend on what happens on its output side.

  `C01.sched_refines` quantifies over read schedules. A connection is written to at the same time: responses are
  queued, writes succeed partly, are interrupted or fail (which discards the queued output), the write buffer is
  cleared. A seeded change made a FAILED WRITE forget a half-received request. The theorems here close that gap
  in the statement: no output-side operation touches the parser state, the staged body, the pending descriptors,
  the limit or the queue of completed requests, and for EVERY interleaving of output-side operations with the
  reads and pops, the input side ends exactly where the reads and pops alone would have left it — so everything
  C01/C02/C04/C11/C12/C13 say about read schedules holds however the application uses the output side meanwhile.
-/
import MicroHttp.Props.C06IO
namespace MicroHttp.C01
open MicroHttp MicroHttp.C06
variable {RL H : Type}

/-- two connections agree on their input side: parser state, staged body, pending descriptors, limit, and the
    queue of completed requests -/
def InEq (c d : Conn RL H) : Prop := ParserEq' c d ∧ c.parsed = d.parsed

theorem InEq.refl (c : Conn RL H) : InEq c c := ⟨⟨rfl, rfl, rfl, rfl, rfl, rfl, rfl⟩, rfl⟩

theorem InEq.trans {a b c : Conn RL H} (h1 : InEq a b) (h2 : InEq b c) : InEq a c := by
  obtain ⟨⟨a1, a2, a3, a4, a5, a6, a7⟩, a8⟩ := h1
  obtain ⟨⟨b1, b2, b3, b4, b5, b6, b7⟩, b8⟩ := h2
  exact ⟨⟨a1.trans b1, a2.trans b2, a3.trans b3, a4.trans b4, a5.trans b5, a6.trans b6, a7.trans b7⟩, a8.trans b8⟩

/-- `try_write`, whatever the stream does (accepts some bytes, zero, EINTR, fails) — the input side is untouched -/
theorem write_keeps_input (c : Conn RL H) (w : SinkStep) : InEq (tryWrite c w).1 c := by
  unfold tryWrite
  set_option linter.unusedSimpArgs false in
  cases hb : c.respBuf <;> cases hq : c.respQ <;> cases w <;>
    simp only [hb, hq] <;> (repeat' split) <;>
    exact ⟨⟨rfl, rfl, rfl, rfl, rfl, rfl, rfl⟩, rfl⟩

theorem enqueue_keeps_input (c : Conn RL H) (r : Response) : InEq (enqueue c r) c :=
  ⟨⟨rfl, rfl, rfl, rfl, rfl, rfl, rfl⟩, rfl⟩

theorem clear_keeps_input (c : Conn RL H) : InEq (clearWrite c) c :=
  ⟨⟨rfl, rfl, rfl, rfl, rfl, rfl, rfl⟩, rfl⟩

/-- a read sees only the input side: from two connections that agree on it, the same `recv` result gives the same
    outcome, the same new completed requests and again agreeing input sides -/
theorem read_respects_input (P : Params RL H) (c d : Conn RL H) (h : InEq c d) (inp : Recv) :
    (tryRead P c inp).2 = (tryRead P d inp).2 ∧ InEq (tryRead P c inp).1 (tryRead P d inp).1 := by
  obtain ⟨h1, h2, dp, dq, e1, e2, _, _⟩ := read_depends_on_parser_only' P c d h.1 inp
  exact ⟨h1, h2, by rw [e1, e2, h.2]⟩

theorem pop_respects_input (c d : Conn RL H) (h : InEq c d) :
    (popParsed c).2 = (popParsed d).2 ∧ InEq (popParsed c).1 (popParsed d).1 := by
  obtain ⟨hp, hq⟩ := h
  unfold popParsed
  rw [hq]
  cases d.parsed with
  | nil => exact ⟨rfl, hp, hq⟩
  | cons r rs => exact ⟨rfl, hp, rfl⟩

/-- the reads and pops of a history, in order -/
def inputOps : List IOp → List IOp
  | [] => []
  | .read inp :: ops => .read inp :: inputOps ops
  | .pop :: ops => .pop :: inputOps ops
  | _ :: ops => inputOps ops

/-- For EVERY interleaving of enqueues, writes (any stream behaviour, failures included) and clears with the reads
    and pops of a history, the input side of the connection — parser state, staged body, pending descriptors,
    limit, completed requests — ends exactly where the reads and pops ALONE leave it. -/
theorem output_side_invisible (P : Params RL H) (ops : List IOp) (c d : Conn RL H) (h : InEq c d)
    (s q s' q' : List Byte) :
    InEq (runIO P c s q ops).1 (runIO P d s' q' (inputOps ops)).1 := by
  induction ops generalizing c d s q s' q' with
  | nil => exact h
  | cons op ops ih =>
    cases op with
    | enq r =>
      simp only [runIO, inputOps]
      exact ih _ _ ((enqueue_keeps_input c r).trans h) _ _ _ _
    | write w =>
      simp only [runIO, inputOps]
      have hk := (write_keeps_input c w).trans h
      rcases htw : tryWrite c w with ⟨c1, out, bytes, called⟩
      rw [htw] at hk
      cases out <;> exact ih _ _ hk _ _ _ _
    | read inp =>
      simp only [runIO, inputOps]
      exact ih _ _ (read_respects_input P c d h inp).2 _ _ _ _
    | pop =>
      simp only [runIO, inputOps]
      exact ih _ _ (pop_respects_input c d h).2 _ _ _ _
    | clear =>
      simp only [runIO, inputOps]
      exact ih _ _ ((clear_keeps_input c).trans h) _ _ _ _

/-- from a new connection: the completed requests (and everything else on the input side) after any history are
    those of its reads and pops alone -/
theorem history_input_is_reads_only (P : Params RL H) (L : Nat) (ops : List IOp) :
    InEq (runIO P (Conn.new L : Conn RL H) [] [] ops).1 (runIO P (Conn.new L : Conn RL H) [] [] (inputOps ops)).1 :=
  output_side_invisible P ops _ _ (InEq.refl _) _ _ _ _

/-- non-vacuity: half a request line, a queued response whose write FAILS, the rest of the request — delivered -/
example :
    let ops : List IOp := [.read (.data [0x47, 0x45, 0x54, 0x20, 0x2F] []), .enq (Response.new .http11 .ok), .write .fail,
      .read (.data [0x20, 0x48, 0x54, 0x54, 0x50, 0x2F, 0x31, 0x2E, 0x31, 0x0D, 0x0A, 0x0D, 0x0A] [])]
    (runIO P0 (Conn.new 0 : Conn0) [] [] ops).1.parsed.length = 1 := by decide

end MicroHttp.C01
