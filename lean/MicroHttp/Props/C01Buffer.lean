/-
  C01 / C03 support — the window abstraction of the receive buffer loses nothing.
  `Conn00.lean` keeps the receive buffer as the Rust code does (a fixed array with stale bytes, a read
  cursor, the copy and zero-fill loops of `shift_buffer_left`, `recv` writing into
  `buffer[read_cursor..]`, the whole array handed to `from_utf8_lossy`). `Conn.lean`, which all
  connection theorems are about, keeps only `win = buffer[0 .. read_cursor)`.
  The theorem: on every input, in every well-formed state, both report the same outcome and stay
  related — so every read the code performs on the array falls inside the bytes actually received and
  stale bytes are never observed; all theorems about `tryRead` transfer to `tryRead00`.
-/
import MicroHttp.Conn00
import MicroHttp.Proofs.Buffer
namespace MicroHttp.C01
open MicroHttp
variable {RL H : Type}

theorem new00_abs (P : Params RL H) (L : Nat) :
    (Conn00.new P L).abs = (Conn.new L : Conn RL H) ∧ (Conn00.new P L).WF P := by
  refine ⟨rfl, ?_, Nat.zero_le _⟩
  simp [Conn00.new]

/-- One `try_read` on the concrete buffer = one `try_read` on the window model. -/
theorem tryRead00_simulates (P : Params RL H) (c : Conn00 RL H) (hwf : c.WF P) (inp : Recv) :
    (tryRead00 P c inp).2 = (tryRead P c.abs inp).2 ∧
    (tryRead00 P c inp).1.abs = (tryRead P c.abs inp).1 ∧
    (tryRead00 P c inp).1.WF P :=
  tryRead00_sim P c hwf inp

/-- … hence for every sequence of reads from a new connection. -/
def runReads00 (P : Params RL H) : Conn00 RL H → List Recv → Conn00 RL H × List ReadOut
  | c, [] => (c, [])
  | c, i :: is =>
    let (c', o) := tryRead00 P c i
    let (c'', os) := runReads00 P c' is
    (c'', o :: os)

def runReads0 (P : Params RL H) : Conn RL H → List Recv → Conn RL H × List ReadOut
  | c, [] => (c, [])
  | c, i :: is =>
    let (c', o) := tryRead P c i
    let (c'', os) := runReads0 P c' is
    (c'', o :: os)

theorem reads00_simulate (P : Params RL H) (L : Nat) (inputs : List Recv) :
    (runReads00 P (Conn00.new P L) inputs).2 = (runReads0 P (Conn.new L) inputs).2 ∧
    (runReads00 P (Conn00.new P L) inputs).1.abs = (runReads0 P (Conn.new L) inputs).1 := by
  have key : ∀ (inputs : List Recv) (c : Conn00 RL H), c.WF P →
      (runReads00 P c inputs).2 = (runReads0 P c.abs inputs).2 ∧
      (runReads00 P c inputs).1.abs = (runReads0 P c.abs inputs).1 := by
    intro inputs
    induction inputs with
    | nil => intro c _; exact ⟨rfl, rfl⟩
    | cons i is ih =>
      intro c hwf
      obtain ⟨h1, h2, h3⟩ := tryRead00_simulates P c hwf i
      obtain ⟨ih1, ih2⟩ := ih (tryRead00 P c i).1 h3
      simp only [runReads00, runReads0]
      rw [h2] at ih1 ih2
      exact ⟨by rw [h1, ih1], ih2⟩
  have h0 := new00_abs P L
  have := key inputs (Conn00.new P L) h0.2
  rw [h0.1] at this
  exact this

/-- the in-place copy loop of `shift_buffer_left` moves the carried bytes to the front … -/
theorem copyLoop_spec (buf : List Byte) (start delta : Nat) (h : start + delta ≤ buf.length) :
    (copyLoop start (List.range delta) buf).take delta = (buf.drop start).take delta ∧
    (copyLoop start (List.range delta) buf).length = buf.length :=
  copyLoop_range_spec buf start delta h

/-- … and the zero-fill loop clears exactly `[a, b)`. -/
theorem zeroLoop_spec (buf : List Byte) (a b : Nat) (h : b ≤ buf.length) :
    (zeroLoop (rangeFrom a b) buf).take a = buf.take a ∧
    (zeroLoop (rangeFrom a b) buf).drop b = buf.drop b ∧
    (∀ i, a ≤ i → i < b → (zeroLoop (rangeFrom a b) buf)[i]? = some 0) ∧
    (zeroLoop (rangeFrom a b) buf).length = buf.length :=
  zeroLoop_rangeFrom_spec buf a b h

end MicroHttp.C01
