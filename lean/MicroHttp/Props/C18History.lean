/-
  C18 (continued) — "every subsequent call", over WHOLE histories of public calls.

  `C18.kill_wins` is a one-poll statement from a state that satisfies the invariant. Here it is lifted to
  every admissible history of the server's public operations (`C10.SOp`: polls over any admissible batch
  with any read / write results, `respond`, `enqueue_responses`, `flush_outgoing_writes`,
  `set_payload_max_size`, `add_kill_switch`), of any length and in any order: wherever in such a history
  a poll's batch contains the kill event, that poll reports the shutdown indication — whatever came
  before (earlier shutdown reports included: the poll that reports it leaves a state in which the next
  one reports it again) — and no public operation ever unregisters the kill switch.
-/
import MicroHttp.ServerSpec
import MicroHttp.Proofs.SrvPoll
import MicroHttp.Props.C10History
import MicroHttp.Props.C18
namespace MicroHttp.C18
open MicroHttp MicroHttp.C10

theorem respond_hasKill (s : Srv) (tok : Token) (r : Response) : (respond s tok r).1.hasKill = s.hasKill := by
  unfold respond
  simp only
  repeat' split
  all_goals rfl

theorem respondMany_hasKill : ∀ (l : List (Token × Response)) (s : Srv), (respondMany s l).1.hasKill = s.hasKill := by
  intro l
  induction l with
  | nil => intro s; rfl
  | cons x rest ih =>
    intro s
    obtain ⟨tok, r⟩ := x
    have hk := respond_hasKill s tok r
    rw [respondMany]
    cases hr : respond s tok r with
    | mk s' rest' =>
      obtain ⟨res, eff⟩ := rest'
      rw [hr] at hk
      cases res with
      | ok => simp only; rw [ih s']; exact hk
      | underflow => exact hk

theorem flush_hasKill (s : Srv) (script : Nat → List SinkStep) : (flush s script).1.hasKill = s.hasKill := rfl

/-- No public operation unregisters the kill switch (only `add_kill_switch` changes the flag, and it sets it). -/
theorem step_keeps_kill (s : Srv) (op : SOp) (hk : s.hasKill = true) : (stepS s op).hasKill = true := by
  cases op with
  | poll evs => show (requests s evs).1.hasKill = true; rw [requests_hasKill]; exact hk
  | respond tok r => show (respond s tok r).1.hasKill = true; rw [respond_hasKill]; exact hk
  | respondMany l => show (respondMany s l).1.hasKill = true; rw [respondMany_hasKill]; exact hk
  | flush script => exact hk
  | setLimit n => exact hk
  | addKill => rfl

theorem history_keeps_kill : ∀ (ops : List SOp) (s : Srv), s.hasKill = true → (run s ops).hasKill = true := by
  intro ops
  induction ops with
  | nil => intro s h; exact h
  | cons op ops ih => intro s h; exact ih (stepS s op) (step_keeps_kill s op h)

/-- A prefix of an admissible history is admissible, and the operation that follows the prefix is admissible
    in the state the prefix leads to. -/
theorem histOK_split : ∀ (pre : List SOp) (op : SOp) (post : List SOp) (s : Srv),
    HistOK s (pre ++ op :: post) → HistOK s pre ∧ OpOK (run s pre) op := by
  intro pre
  induction pre with
  | nil => intro op post s h; exact ⟨trivial, h.1⟩
  | cons p pre ih =>
    intro op post s h
    have := ih op post (stepS s p) h.2
    exact ⟨⟨h.1, this.1⟩, this.2⟩

/-- **Every** poll of an admissible history whose batch contains the kill event reports shutdown: the history
    before it (`pre`) is arbitrary — any number of earlier polls (with or without the kill event, so earlier
    shutdown reports too), answers, flushes — and so is what follows. With E6/E8 (a signalled kill switch is
    in every batch: `registered_fits_batch`, `kill_switch_kept`, `history_keeps_kill`) this is "every
    subsequent call returns the shutdown indication". -/
theorem every_poll_with_kill_reports_shutdown (s : Srv) (h : SrvInv s) (pre : List SOp) (evs : List Ev)
    (post : List SOp) (hh : HistOK s (pre ++ .poll evs :: post)) (hk : Ev.kill ∈ evs) :
    (requests (run s pre) evs).2.1 = .aborted .shutdown := by
  obtain ⟨hpre, hop⟩ := histOK_split pre (.poll evs) post s hh
  exact kill_wins (run s pre) (history_inv pre s h hpre) evs hop hk

/-- From a new server: after `add_kill_switch`, in every admissible history, the switch stays registered, the
    batch always has room for it, and every poll that sees it reports shutdown. -/
theorem from_new (pre : List SOp) (evs : List Ev) (post : List SOp)
    (hh : HistOK Srv.new (.addKill :: (pre ++ .poll evs :: post))) (hk : Ev.kill ∈ evs) :
    (run Srv.new (.addKill :: pre)).hasKill = true ∧
    registered (run Srv.new (.addKill :: pre)) ≤ MAX_CONNECTIONS + 2 ∧
    (requests (run Srv.new (.addKill :: pre)) evs).2.1 = .aborted .shutdown := by
  have hinv0 : SrvInv (stepS Srv.new .addKill) := step_inv Srv.new inv_new .addKill trivial
  obtain ⟨hpre, _⟩ := histOK_split pre (.poll evs) post _ hh.2
  refine ⟨history_keeps_kill pre _ rfl, registered_fits_batch _ (history_inv pre _ hinv0 hpre), ?_⟩
  exact every_poll_with_kill_reports_shutdown _ hinv0 pre evs post hh.2 hk

/-- non-vacuity: a history with a kill switch, an accepted client whose request is outstanding, and then TWO
    polls that both see the kill event (the second after the first has already reported shutdown) is
    admissible, and the request is still unanswered when they run. -/
example :
    let getReq : List Byte := [0x47, 0x45, 0x54, 0x20, 0x2F, 0x20, 0x48, 0x54, 0x54, 0x50, 0x2F, 0x31, 0x2E, 0x31, 0x0D, 0x0A, 0x0D, 0x0A]
    let pre : List SOp := [.poll [.listener 7], .poll [.client 7 { inn := true } (.data getReq []) [] .fail], .poll [.kill]]
    HistOK Srv.new (.addKill :: (pre ++ .poll [.kill] :: [])) ∧
    (run Srv.new (.addKill :: pre)).outstanding = [⟨7, 0⟩] := by
  refine ⟨⟨trivial, ⟨?_, fun _ => trivial⟩, ⟨⟨⟨_, rfl, fun _ => rfl, fun h => by cases h⟩, fun _ => trivial⟩,
    ⟨⟨?_, fun _ => trivial⟩, ⟨⟨?_, fun _ => trivial⟩, trivial⟩⟩⟩⟩, by decide⟩
  · show (7 : Nat) ∉ Srv.fds (stepS Srv.new .addKill)
    decide
  · show Srv.hasKill _ = true
    decide
  · show Srv.hasKill _ = true
    decide

end MicroHttp.C18
