/-
  C12 (continued) — WHEN the application pops does not matter.

  `pop_parsed_request` and `try_read` touch the queue of completed requests from opposite ends: a read only
  appends, a pop only removes the head, and nothing a read does depends on what is queued. Hence every
  interleaving of pops with a given sequence of reads hands out the same requests, each with the same
  descriptors, in the same order — in particular a request that waits in the queue never picks up descriptors
  that arrive later (a seeded change made `pop_parsed_request` "top up" the popped request with the
  connection's pending descriptors; the property theorems of C12 speak about what a READ attaches, this one
  closes the gap on the pop side).
-/
import MicroHttp.Props.C12
import MicroHttp.Proofs.Restart
namespace MicroHttp.C12
open MicroHttp
variable {RL H : Type}

def withParsed (c : Conn RL H) (p : List (Req RL H)) : Conn RL H := { c with parsed := p }

/-- a read appends to the queue of completed requests and does not look at it -/
theorem read_ignores_queue (P : Params RL H) (c : Conn RL H) (p : List (Req RL H)) (inp : Recv) :
    ∃ new, (tryRead P c inp).1.parsed = c.parsed ++ new ∧
      (tryRead P (withParsed c p) inp).1 = withParsed (tryRead P c inp).1 (p ++ new) ∧
      (tryRead P (withParsed c p) inp).2 = (tryRead P c inp).2 := by
  have h1 := tryRead_of_strip P c inp
  have h2 := tryRead_of_strip P (withParsed c p) inp
  have hs : strip (withParsed c p) = strip c := rfl
  rw [hs] at h2
  refine ⟨(tryRead P (strip c) inp).1.parsed, ?_, ?_, ?_⟩
  · rw [h1]; rfl
  · rw [h2, h1]; rfl
  · rw [h2, h1]

/-- reads and pops of one connection -/
inductive RP
  | read (inp : Recv)
  | pop

/-- run a history, collecting what the pops hand out (in order) -/
def runRP (P : Params RL H) : Conn RL H → List RP → Conn RL H × List (Req RL H)
  | c, [] => (c, [])
  | c, .read inp :: ops => runRP P (tryRead P c inp).1 ops
  | c, .pop :: ops =>
    match (popParsed c).2 with
    | none => runRP P (popParsed c).1 ops
    | some r => ((runRP P (popParsed c).1 ops).1, r :: (runRP P (popParsed c).1 ops).2)

/-- the same history with the pops left out -/
def readsOnly (P : Params RL H) : Conn RL H → List RP → Conn RL H
  | c, [] => c
  | c, .read inp :: ops => readsOnly P (tryRead P c inp).1 ops
  | c, .pop :: ops => readsOnly P c ops

theorem withParsed_self (c : Conn RL H) : withParsed c c.parsed = c := rfl

theorem pop_timing_gen (P : Params RL H) : ∀ (ops : List RP) (c : Conn RL H) (q : List (Req RL H)),
    readsOnly P (withParsed c (q ++ c.parsed)) ops =
      withParsed (runRP P c ops).1 (q ++ (runRP P c ops).2 ++ (runRP P c ops).1.parsed) := by
  intro ops
  induction ops with
  | nil => intro c q; simp [readsOnly, runRP]
  | cons op ops ih =>
    intro c q
    cases op with
    | read inp =>
      obtain ⟨new, e1, e2, _⟩ := read_ignores_queue P c (q ++ c.parsed) inp
      simp only [readsOnly, runRP]
      rw [e2]
      have : (q ++ c.parsed) ++ new = q ++ (tryRead P c inp).1.parsed := by rw [e1, List.append_assoc]
      rw [this]
      exact ih (tryRead P c inp).1 q
    | pop =>
      simp only [readsOnly, runRP]
      cases hp : c.parsed with
      | nil =>
        have h0 : popParsed c = (c, none) := by unfold popParsed; rw [hp]
        rw [h0]
        simp only
        have := ih c q
        rw [hp] at this
        exact this
      | cons r rs =>
        have h1 : popParsed c = ({ c with parsed := rs }, some r) := by unfold popParsed; rw [hp]
        rw [h1]
        simp only
        have := ih ({ c with parsed := rs } : Conn RL H) (q ++ [r])
        have e : withParsed ({ c with parsed := rs } : Conn RL H) ((q ++ [r]) ++ rs) = withParsed c (q ++ r :: rs) := by
          simp [withParsed]
        rw [e] at this
        rw [this]
        simp [withParsed]

/-- Pop timing is irrelevant: for ANY interleaving of pops with the reads, the requests handed out, followed by
    the requests still queued, are exactly the queue of the run without pops — the same requests with the same
    descriptors in the same order; and apart from that queue the two runs end in the same connection state. -/
theorem pop_timing_irrelevant (P : Params RL H) (c : Conn RL H) (ops : List RP) :
    (runRP P c ops).2 ++ (runRP P c ops).1.parsed = (readsOnly P c ops).parsed ∧
    readsOnly P c ops = withParsed (runRP P c ops).1 ((runRP P c ops).2 ++ (runRP P c ops).1.parsed) := by
  have h := pop_timing_gen P ops c []
  simp only [List.nil_append] at h
  rw [withParsed_self] at h
  constructor
  · rw [h]; simp [withParsed]
  · exact h

/-- non-vacuity: a request completed by the first read and popped BEFORE a descriptor arrives does not get it -/
example :
    let get : List Byte := [0x47, 0x45, 0x54, 0x20, 0x2F, 0x20, 0x48, 0x54, 0x54, 0x50, 0x2F, 0x31, 0x2E, 0x31, 0x0D, 0x0A, 0x0D, 0x0A]
    let ops : List RP := [.read (.data get []), .read (.data [0x47] [7]), .pop]
    ((runRP P0 (Conn.new 100 : Conn0) ops).2.map (·.files)) = [[]] := by decide

end MicroHttp.C12
