/-
  C09 (continued) — "no client can wedge the server", over WHOLE histories of public calls.

  `C09.poll_returns` is a one-poll statement from a state with the invariant. Lifted here through
  `C10.history_inv`: in EVERY admissible history of public calls (polls over any admissible batch with any
  read / write results — garbage, hang-ups, failed and short writes included —, answers, flushes, limit
  changes, in any order and of any length) NO call fails: every poll returns its requests, or the shutdown
  indication and then only because the kill event was in its batch (never a panic inside a connection, never
  the `unwrap` on an unknown descriptor), every `respond` to an outstanding request returns Ok, and every
  `enqueue_responses` whose responses answer outstanding requests returns Ok. One failed call would be a
  wedge: the caller's `?` skips the sweep and the remaining events of the batch.
-/
import MicroHttp.ServerSpec
import MicroHttp.Props.C08
import MicroHttp.Props.C09
import MicroHttp.Props.C10History
import MicroHttp.Props.C18History
namespace MicroHttp.C09
open MicroHttp MicroHttp.C10

/-- what a public call reports, in the state in which it is made -/
inductive CallFails : Srv → SOp → Prop
  | poll (s : Srv) (evs : List Ev) (a : Abort) (h : (requests s evs).2.1 = .aborted a)
      (hne : a ≠ .shutdown ∨ Ev.kill ∉ evs) : CallFails s (.poll evs)
  | respond (s : Srv) (tok : Token) (r : Response) (h : (respond s tok r).2.1 = .underflow) : CallFails s (.respond tok r)
  | respondMany (s : Srv) (l : List (Token × Response)) (h : (respondMany s l).2 = .underflow) : CallFails s (.respondMany l)

/-- one admissible call from a state with the invariant does not fail -/
theorem call_succeeds (s : Srv) (h : SrvInv s) (op : SOp) (hop : OpOK s op) : ¬ CallFails s op := by
  intro hf
  cases hf with
  | poll evs a ha hne =>
    rcases poll_returns s h evs hop with ⟨reqs, g⟩ | ⟨g, k⟩
    · rw [g] at ha; cases ha
    · rw [g] at ha
      cases ha
      rcases hne with hne | hne
      · exact hne rfl
      · exact hne k
  | respond tok r hu =>
    have := C08.respond_ok s h tok hop r
    rw [this] at hu; cases hu
  | respondMany l hu =>
    have := (respondMany_inv l s h hop).2
    rw [this] at hu; cases hu

/-- **No call of any admissible history fails**, whatever came before it and whatever follows. -/
theorem no_call_ever_fails (s : Srv) (h : SrvInv s) (pre : List SOp) (op : SOp) (post : List SOp)
    (hh : HistOK s (pre ++ op :: post)) : ¬ CallFails (run s pre) op := by
  obtain ⟨hpre, hop⟩ := C18.histOK_split pre op post s hh
  exact call_succeeds (run s pre) (history_inv pre s h hpre) op hop

/-- … in particular from a new server. -/
theorem no_call_ever_fails_from_new (pre : List SOp) (op : SOp) (post : List SOp)
    (hh : HistOK Srv.new (pre ++ op :: post)) : ¬ CallFails (run Srv.new pre) op :=
  no_call_ever_fails Srv.new inv_new pre op post hh

/-- `CallFails` is not empty talk: outside the admissible histories a call does fail — answering a request
    that was never yielded underflows (so the theorem's hypothesis A1 is what excludes it, not the definition). -/
example : CallFails
    (run Srv.new [.poll [.listener 7]]) (.respond ⟨7, 0⟩ (Response.new .http11 .ok)) :=
  .respond _ _ _ (by decide)

/-- non-vacuity: an admissible history in which a client sends garbage (answered with a 400 by the server
    itself) and then hangs up, followed by one more poll -/
example :
    let junk : List Byte := [0x58, 0x0D, 0x0A]
    let ops : List SOp := [.poll [.listener 7], .poll [.client 7 { inn := true } (.data junk []) [] .fail]]
    HistOK Srv.new (ops ++ .poll [] :: []) := by
  refine ⟨⟨?_, fun _ => trivial⟩, ⟨⟨⟨_, rfl, fun _ => rfl, fun h => by cases h⟩, fun _ => trivial⟩, ⟨trivial, trivial⟩⟩⟩
  show (7 : Nat) ∉ Srv.fds Srv.new
  decide

end MicroHttp.C09
