/-
  C08 — well-behaved clients: each request yielded once and answered; no stall, no spin.
  Proved here: the safety core (polling and responding never fail; requests are yielded exactly as
  the connection delivers them; the state / interest invariants that make the epoll registration
  follow the work to do; every write makes progress; flushing delivers everything the sockets
  accept; stale OUT interest is repaired by one poll). The readiness semantics of the kernel
  (E6/E7) is not modelled: that the epoll descriptor is silent at quiescence and signals while
  work is outstanding is checked on the real kernel by the correspondence histories.
-/
import MicroHttp.ServerSpec
import MicroHttp.Proofs.SrvRoute
namespace MicroHttp.C08
open MicroHttp

/-- Responding to an outstanding token never fails (in particular no `Underflow`). -/
theorem respond_ok (s : Srv) (h : SrvInv s) (tok : Token) (ht : tok ∈ s.outstanding) (r : Response) :
    (respond s tok r).2.1 = .ok := by
  obtain ⟨c, _, hf, _, _, hpos⟩ := h.token_client ht
  rw [respond_eq_some s tok r c hf hpos]

/-- Each complete request is yielded exactly once: a successful read yields exactly the requests
    the connection delivered in that read (C01: the automaton's deliveries for the bytes received),
    in order, leaves none behind, and counts them as in flight. -/
theorem read_yields_deliveries (c : Client) (hc : ClientOK c) (rd : Recv) (t : List Byte)
    (h : (tryRead P0 c.conn rd).2 = .ok) :
    (c.read rd t).2.1 = (tryRead P0 c.conn rd).1.parsed ∧ (c.read rd t).1.conn.parsed = [] ∧
    (c.read rd t).1.inflight = c.inflight + (tryRead P0 c.conn rd).1.parsed.length := by
  have _ := hc
  rw [Client.read_eq]
  simp only [h, true_and]
  constructor <;> split <;> rfl

/-- After responding, the connection waits for writability and is registered for it, so the
    response cannot be forgotten. -/
theorem respond_arms_out (s : Srv) (h : SrvInv s) (tok : Token) (ht : tok ∈ s.outstanding) (r : Response)
    (c : Client) (hc : findClient s.conns tok.fd = some c) (hopen : c.state ≠ .closed) :
    ∃ c', findClient (respond s tok r).1.conns tok.fd = some c' ∧ c'.state = .awaitingOut ∧
      c'.interest = .out ∧ pendingWrite c'.conn = true := by
  exact respond_arms_out' s h tok ht r c hc hopen

def unsent (c : Client) : List Byte := (c.conn.respBuf.getD []) ++ c.conn.respQ.flatMap Response.serialize

/-- Every accepted write makes progress: the bytes written are the next unsent bytes, and the
    connection returns to waiting for input exactly when nothing is left. -/
theorem write_progress (c : Client) (hc : ClientOK c) (hs : c.state = .awaitingOut) (k : Nat) :
    (c.write (.accept k)).2 ≠ [] ∧
    (c.write (.accept k)).2 ++ unsent (c.write (.accept k)).1 = unsent c ∧
    ((c.write (.accept k)).1.state = .awaitingIn ↔ unsent (c.write (.accept k)).1 = []) ∧
    ((c.write (.accept k)).1.state = .awaitingOut ↔ unsent (c.write (.accept k)).1 ≠ []) := by
  exact Client.write_accept c hc hs k

/-- Flushing delivers queued responses that fit the socket buffer without polling: if every write
    is accepted in full (the socket takes at least as many bytes as are unsent), a flush sends
    exactly the unsent bytes and leaves nothing pending. -/
theorem flush_delivers (c : Client) (hc : ClientOK c) (ws : List SinkStep)
    (hall : ∀ w ∈ ws, ∃ k, w = .accept k ∧ (unsent c).length ≤ k) (hlen : c.conn.respQ.length + 1 ≤ ws.length) :
    (flushClient c ws).2 = (if c.state = .awaitingOut then unsent c else []) ∧
    (c.state = .awaitingOut → (flushClient c ws).1.state = .awaitingIn ∧ unsent (flushClient c ws).1 = []) := by
  refine flushClient_full ws c hc hall (Nat.le_trans ?_ hlen)
  unfold writesNeeded
  split <;> omega

/-- The stale registration a flush leaves behind (waiting for input, registered for OUT) costs one
    wake-up and no error: the OUT event finds nothing to write, the connection stays in
    `awaitingIn` and the registration is switched back to IN (defect F4). -/
theorem stale_out_repaired (s : Srv) (fd : Nat) (c : Client) (hf : findClient s.conns fd = some c)
    (hs : c.state = .awaitingIn) (hp : pendingWrite c.conn = false) (hI : Inv P0 c.conn)
    (rd : Recv) (t : List Byte) (w : SinkStep) :
    ∃ c', findClient (handleEv s (.client fd { out := true } rd t w)).1.conns fd = some c' ∧
      c'.state = .awaitingIn ∧ c'.interest = .inn ∧ c'.conn = c.conn ∧
      (handleEv s (.client fd { out := true } rd t w)).2.2.2 = none := by
  have _ := hI
  exact stale_out_repaired' s fd c hf hs hp rd t w

/-- The registration follows the work: under the invariant, a connection with something to write
    is registered for OUT, and one registered for IN has nothing to write. -/
theorem interest_follows_work (s : Srv) (h : SrvInv s) (c : Client) (hc : c ∈ s.conns) :
    (pendingWrite c.conn = true → c.interest = .out) ∧ (c.interest = .inn → pendingWrite c.conn = false) := by
  have hok := h.clients c hc
  refine ⟨fun hp => hok.out_interest (hok.pending_iff.mp hp), fun hi => ?_⟩
  cases hp : pendingWrite c.conn with
  | false => rfl
  | true =>
    have := hok.out_interest (hok.pending_iff.mp hp)
    rw [hi] at this; cases this

end MicroHttp.C08
