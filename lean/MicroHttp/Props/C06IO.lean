/-
  C06 (continued) — the output side under histories that ALSO read.

  `C06.history_prefix` quantifies over enqueues and writes. A connection is used for input at the same time:
  `try_read` may queue interim responses (100 Continue) itself, and — as a seeded change showed (a parse error
  that cleared the response queue) — a read could in principle damage output that is already queued. The theorems
  here close that gap: whatever a read returns (data, end of stream, any errno; a delivered request, a parse
  error and its reset), it leaves the unsent bytes untouched and only appends the interim responses it queues;
  and the prefix law of C06 holds over every history of enqueue / write / read / pop / clear.
-/
import MicroHttp.Props.C06
import MicroHttp.Proofs.Restart
namespace MicroHttp.C06
open MicroHttp
variable {RL H : Type}

/-- the responses a read queued (interim responses), in order -/
def queuedBy (P : Params RL H) (c : Conn RL H) (inp : Recv) : List Response :=
  (tryRead P c inp).1.respQ.drop c.respQ.length

/-- A read — with ANY result of its `recv` — never removes, reorders or rewrites output that is queued or
    partly written: the unsent bytes afterwards are the unsent bytes before, followed by the interim
    responses this read queued; the partly written response is untouched. -/
theorem read_preserves_unsent (P : Params RL H) (c : Conn RL H) (inp : Recv) :
    (tryRead P c inp).1.respBuf = c.respBuf ∧
    (tryRead P c inp).1.respQ = c.respQ ++ queuedBy P c inp ∧
    unsent (tryRead P c inp).1 = unsent c ++ (queuedBy P c inp).flatMap Response.serialize := by
  have h := tryRead_of_strip P c inp
  have hb : (tryRead P c inp).1.respBuf = c.respBuf := by rw [h]; rfl
  have hq : (tryRead P c inp).1.respQ = c.respQ ++ (tryRead P (strip c) inp).1.respQ := by rw [h]; rfl
  have hd : queuedBy P c inp = (tryRead P (strip c) inp).1.respQ := by
    unfold queuedBy; rw [hq]; simp
  refine ⟨hb, by rw [hd]; exact hq, ?_⟩
  unfold unsent
  rw [hb, hq, hd, List.flatMap_append, List.append_assoc]

/-- `pop_parsed_request` does not touch the output side. -/
theorem pop_preserves_unsent (c : Conn RL H) : unsent (popParsed c).1 = unsent c ∧ (popParsed c).1.respBuf = c.respBuf := by
  unfold popParsed unsent
  cases c.parsed <;> exact ⟨rfl, rfl⟩

/-- operations of a full history of one connection -/
inductive IOp
  | enq (r : Response)
  | write (w : SinkStep)
  | read (inp : Recv)
  | pop
  | clear

/-- Ghost bookkeeping as in `runW`: `sent` = bytes the stream accepted, `queued` = serialized responses queued
    (by the application or by a read), both since the last discard (failed write or `clear_write_buffer`). -/
def runIO (P : Params RL H) : Conn RL H → List Byte → List Byte → List IOp → Conn RL H × List Byte × List Byte
  | c, sent, queued, [] => (c, sent, queued)
  | c, sent, queued, .enq r :: ops => runIO P (enqueue c r) sent (queued ++ r.serialize) ops
  | c, sent, queued, .write w :: ops =>
    match tryWrite c w with
    | (c', .closed, _, _) => runIO P c' [] [] ops
    | (c', _, bytes, _) => runIO P c' (sent ++ bytes) queued ops
  | c, sent, queued, .read inp :: ops =>
    runIO P (tryRead P c inp).1 sent (queued ++ (queuedBy P c inp).flatMap Response.serialize) ops
  | c, sent, queued, .pop :: ops => runIO P (popParsed c).1 sent queued ops
  | c, _, _, .clear :: ops => runIO P (clearWrite c) [] [] ops

/-- For ANY history of enqueues, writes (any stream behaviour), reads (any `recv` result, including parse
    errors and the reset that follows them), pops and clears: the bytes the stream accepted followed by the
    unsent bytes are exactly the responses queued since the last discard, in order — so the accepted bytes are
    a prefix of them, nothing is lost, duplicated or reordered, and pending output is reported exactly while
    something is unsent. -/
theorem history_prefix_io (P : Params RL H) (L : Nat) (ops : List IOp)
    (c : Conn RL H) (sent queued : List Byte) (h : runIO P (Conn.new L : Conn RL H) [] [] ops = (c, sent, queued)) :
    sent ++ unsent c = queued ∧ sent <+: queued ∧ (pendingWrite c = true ↔ sent ≠ queued) := by
  have gen : ∀ (ops : List IOp) (c0 : Conn RL H) (s0 q0 : List Byte), RB c0 → s0 ++ unsent c0 = q0 →
      ∀ c sent queued, runIO P c0 s0 q0 ops = (c, sent, queued) → sent ++ unsent c = queued ∧ RB c := by
    intro ops
    induction ops with
    | nil =>
      intro c0 s0 q0 hR hs c sent queued h
      simp only [runIO, Prod.mk.injEq] at h
      obtain ⟨rfl, rfl, rfl⟩ := h
      exact ⟨hs, hR⟩
    | cons op ops ih =>
      intro c0 s0 q0 hR hs c sent queued h
      cases op with
      | enq r =>
        simp only [runIO] at h
        refine ih _ _ _ (RB_enqueue c0 r hR) ?_ c sent queued h
        show s0 ++ unsent' (enqueue c0 r) = _
        rw [enqueue_unsent', ← List.append_assoc]
        exact congrArg (· ++ r.serialize) hs
      | write w =>
        simp only [runIO] at h
        cases htw : tryWrite c0 w with
        | mk c1 rest =>
          obtain ⟨out, bytes, called⟩ := rest
          rw [htw] at h
          obtain ⟨k1, k2, k3⟩ := write_step_hist c0 hR w s0 q0 hs c1 out bytes called htw
          cases out with
          | closed =>
            simp only at h
            exact ih c1 [] [] k1 (by rw [List.nil_append]; exact k2 rfl) c sent queued h
          | ok =>
            simp only at h
            exact ih c1 _ _ k1 (k3 (by simp)) c sent queued h
          | invalidWrite =>
            simp only at h
            exact ih c1 _ _ k1 (k3 (by simp)) c sent queued h
      | read inp =>
        simp only [runIO] at h
        obtain ⟨r1, _, r3⟩ := read_preserves_unsent P c0 inp
        refine ih _ _ _ (by unfold RB; rw [r1]; exact hR) ?_ c sent queued h
        rw [r3, ← List.append_assoc, hs]
      | pop =>
        simp only [runIO] at h
        obtain ⟨p1, p2⟩ := pop_preserves_unsent c0
        exact ih _ _ _ (by unfold RB; rw [p2]; exact hR) (by rw [p1]; exact hs) c sent queued h
      | clear =>
        simp only [runIO] at h
        exact ih _ [] [] (by simp [RB, clearWrite]) (by simp [unsent, clearWrite]) c sent queued h
  obtain ⟨g1, g2⟩ := gen ops (Conn.new L) [] [] (RB_new L) (by simp [unsent, Conn.new]) c sent queued h
  obtain ⟨g3, g4⟩ := hist_final c g2 sent queued g1
  exact ⟨g1, g3, g4⟩

/-- non-vacuity: a read that is rejected while a response is queued leaves that response unsent -/
example :
    let c := enqueue (Conn.new 0 : Conn0) (Response.new .http11 .ok)
    (tryRead P0 c (.data [0x58, 0x0D, 0x0A] [])).2 = .parseErr .invalidRequest ∧
    unsent (tryRead P0 c (.data [0x58, 0x0D, 0x0A] [])).1 = unsent c := by decide

end MicroHttp.C06
