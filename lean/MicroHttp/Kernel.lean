/-
  MicroHttp.Kernel — a small model of what the kernel contributes to the server's polling loop:
  per-connection socket state (bytes the client sent that the server has not yet received, whether
  the peer is gone, free space in the send buffer), the listen backlog, the kill-switch eventfd, and
  LEVEL-TRIGGERED epoll readiness over the server's interest set (E6/E7/E8 of DESIGN.md §5).
  It is an ASSUMPTION about the environment, stated as executable definitions so that the liveness
  part of C08 can be proved over it; the harness observes the same quantities on the real kernel.
-/
import MicroHttp.ServerSpec
namespace MicroHttp

structure KSock where
  /-- sent by the client, not yet received by the server (FIFO) -/
  unread : List Byte := []
  /-- the client closed or shut down: hang-up condition pending (permanent) -/
  peerGone : Bool := false
  /-- free bytes in the send buffer towards the client -/
  space : Nat := 0

structure World where
  srv : Srv
  /-- socket state by descriptor -/
  sock : Nat → KSock
  /-- descriptors the pending connects will be given by `accept`, in order -/
  backlog : List Nat := []
  killSignalled : Bool := false

/-- E7: a connection's descriptor is reported iff the peer is gone, or — according to the interest
    it is registered with — there is unread input / there is room to write. -/
def connReady (c : Client) (k : KSock) : Bool :=
  k.peerGone ||
  (match c.interest with
   | .inn => !k.unread.isEmpty
   | .out => decide (0 < k.space))

/-- the epoll descriptor of the server signals readiness -/
def World.ready (w : World) : Bool :=
  !w.backlog.isEmpty || (w.srv.hasKill && w.killSignalled) ||
  w.srv.conns.any (fun c => connReady c (w.sock c.fd))

/-- E2/E3/E7: the event epoll reports for a ready connection, with what `recv` / `write` will return:
    all unread bytes are on offer (the connection takes what fits its buffer), a write is accepted
    up to the free space. -/
def connEvent (c : Client) (k : KSock) : Ev :=
  .client c.fd
    { inn := (c.interest == .inn) && !k.unread.isEmpty,
      out := (c.interest == .out) && decide (0 < k.space),
      hup := k.peerGone }
    (.data k.unread []) [] (.accept k.space)

/-- the batch a level-triggered `epoll_wait` returns when at most 12 descriptors are registered
    (C18.registered_fits_batch): the listener if a connect is pending, then every ready connection.
    (The kill switch is left out: these theorems are about the time before it is signalled.) -/
def World.batch (w : World) : List Ev :=
  (match w.backlog with
   | [] => []
   | fd :: _ => [Ev.listener fd]) ++
  (w.srv.conns.filter (fun c => connReady c (w.sock c.fd))).map (fun c => connEvent c (w.sock c.fd))

/-- bytes written to descriptor `fd` by a list of effects -/
def writtenTo (fd : Nat) : List Effect → Nat
  | [] => 0
  | .wrote fd' _ b :: es => (if fd' = fd then b.length else 0) + writtenTo fd es
  | _ :: es => writtenTo fd es

/-- how many unread bytes the poll took from connection `c` (its single `recv` takes what fits) -/
def takenFrom (c : Client) (k : KSock) : Nat :=
  if !k.peerGone && (c.interest == .inn) && !k.unread.isEmpty then takes P0 c.conn k.unread else 0

/-- One `requests()` call against the kernel state: the server handles the batch; the kernel's
    queues shrink by what was received and grow/shrink by what was written. -/
def World.poll (w : World) : World × PollResult :=
  let (s', res, effs) := requests w.srv w.batch
  ({ w with
      srv := s',
      backlog := w.backlog.drop 1,
      sock := fun fd =>
        match findClient w.srv.conns fd with
        | none => w.sock fd
        | some c =>
          let k := w.sock fd
          { k with unread := k.unread.drop (takenFrom c k), space := k.space - writtenTo fd effs } },
   res)

def sumList (l : List Nat) : Nat := l.foldl (· + ·) 0

def unsentOf (c : Client) : List Byte := (c.conn.respBuf.getD []) ++ c.conn.respQ.flatMap Response.serialize

/-- work measure, compared lexicographically: (pending connects and the input already waiting on
    them + unread input bytes of the connections, unsent output bytes, connections with a stale OUT
    registration) -/
def World.measure (w : World) : Nat × Nat × Nat :=
  (sumList (w.backlog.map (fun fd => 1 + (w.sock fd).unread.length)) +
     sumList (w.srv.conns.map (fun c => (w.sock c.fd).unread.length)),
   sumList (w.srv.conns.map (fun c => (unsentOf c).length)),
   (w.srv.conns.filter (fun c => c.interest == .out && c.state == .awaitingIn)).length)

def lexLt (a b : Nat × Nat × Nat) : Prop :=
  a.1 < b.1 ∨ (a.1 = b.1 ∧ (a.2.1 < b.2.1 ∨ (a.2.1 = b.2.1 ∧ a.2.2 < b.2.2)))

/-- clients keep their connections open, and the kill switch has not been signalled -/
def World.WellBehaved (w : World) : Prop :=
  w.killSignalled = false ∧
  (∀ c ∈ w.srv.conns, (w.sock c.fd).peerGone = false ∧ c.state ≠ .closed) ∧
  (∀ fd ∈ w.backlog, fd ∉ w.srv.fds ∧ (w.sock fd).peerGone = false) ∧ w.backlog.Nodup

end MicroHttp
