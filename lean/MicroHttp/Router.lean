/-
  MicroHttp.Router — `HttpRoutes::{new, add_route, handle_http_request}` of router.rs.
  Handlers are opaque identifiers; invoking handler `h` on a request is recorded as the
  result `invoked h`, the caller supplies the response the handler produced.
-/
import MicroHttp.Request
import MicroHttp.Response
namespace MicroHttp

structure Routes where
  serverId : List Byte
  prefix_ : List Byte
  /-- `HashMap<String, handler>` as an association list with unique keys. -/
  routes : List (List Byte × Nat) := []
  deriving DecidableEq, Repr

def Method.toStr (m : Method) : List Byte := m.raw

/-- `format!("{}:{}{}", method.to_str(), prefix, path)` -/
def routeKey (m : Method) (pre path : List Byte) : List Byte := m.toStr ++ [COLON] ++ pre ++ path

def lookupRoute (rs : List (List Byte × Nat)) (k : List Byte) : Option Nat :=
  (rs.find? (fun e => e.1 = k)).map (·.2)

/-- `add_route`: `Err(HandlerExist(full_path))` if the key is occupied, else insert. -/
def Routes.addRoute (r : Routes) (m : Method) (path : List Byte) (handler : Nat) :
    Routes × Except (List Byte) Unit :=
  let k := routeKey m r.prefix_ path
  match lookupRoute r.routes k with
  | some _ => (r, .error k)
  | none => ({ r with routes := r.routes ++ [(k, handler)] }, .ok ())

/-- Which handler (if any) `handle_http_request` invokes for a request. -/
def Routes.dispatch (r : Routes) (req : Request) : Option Nat :=
  lookupRoute r.routes (req.line.method.toStr ++ [COLON] ++ getAbsPath req.line.uri)

/-- `handle_http_request`, given the response the invoked handler returned. -/
def Routes.handle (r : Routes) (req : Request) (handlerResp : Nat → Response) : Response :=
  let resp := match r.dispatch req with
    | some h => handlerResp h
    | none => Response.new .http11 .notFound
  { resp with server := r.serverId, contentType := .applicationJson }

end MicroHttp
