/-
  MicroHttp.Server — `ClientConnection::{read, write, enqueue_response, is_done}` and
  `HttpServer::{requests, respond, flush_outgoing_writes, handle_new_connection}` of server.rs as a
  REACTIVE function: every event carries what the kernel returned while it was handled (the
  descriptor `accept` produced; the result of the single `recv`; the result of the single `write`).
  Theorems quantify over all event lists and results; the harness observes the same data on the
  real kernel and feeds it to this model.

  Ghost state (not in the Rust code): `inst` — a fresh identity per accepted connection — and
  `outstanding`, the tokens yielded to the application and not yet answered. The real token is the
  descriptor number only.
-/
import MicroHttp.Conn
import MicroHttp.Display
namespace MicroHttp

inductive CState | awaitingIn | awaitingOut | closed
  deriving DecidableEq, Repr

/-- which event set the connection is registered with in epoll (RDHUP is always included) -/
inductive Interest | inn | out
  deriving DecidableEq, Repr

structure Client where
  fd : Nat
  /-- ghost: identity of this accepted connection -/
  inst : Nat
  conn : Conn0
  state : CState := .awaitingIn
  inflight : Nat := 0
  interest : Interest := .inn

structure Token where
  fd : Nat
  inst : Nat
  deriving DecidableEq, Repr

structure Srv where
  /-- `HashMap<RawFd, ClientConnection>` (keys unique) -/
  conns : List Client := []
  limit : Nat := MAX_PAYLOAD_SIZE
  hasKill : Bool := false
  nextInst : Nat := 0
  /-- ghost: yielded and not yet answered -/
  outstanding : List Token := []

def Srv.new : Srv := {}

def MAX_CONNECTIONS : Nat := 10

structure EvFlags where
  inn : Bool := false
  out : Bool := false
  /-- EPOLLERR | EPOLLHUP | EPOLLRDHUP -/
  hup : Bool := false
  deriving DecidableEq, Repr

inductive Ev
  /-- event on the kill-switch descriptor -/
  | kill
  /-- event on the listener; `accept` returns descriptor `newFd` -/
  | listener (newFd : Nat)
  /-- event on a connection: flags, what `recv` returns if called (with the errno text, which
      ends up in a 500 body), what `write` returns if called -/
  | client (fd : Nat) (fl : EvFlags) (rd : Recv) (errText : List Byte) (wr : SinkStep)

inductive Effect
  | wrote (fd inst : Nat) (bytes : List Byte)
  | accepted (fd inst : Nat)
  | refused (fd : Nat)                 -- receives SERVER_FULL_ERROR_MESSAGE and is closed
  | dropped (fd inst : Nat)            -- epoll_del + close
  | interest (fd : Nat) (i : Interest) -- epoll_ctl(MOD)
  deriving DecidableEq, Repr

inductive Abort
  | shutdown
  /-- `connections.get_mut(&fd).unwrap()` on an unknown descriptor -/
  | unknownFd (fd : Nat)
  /-- a panic inside the connection (excluded by the connection invariant) -/
  | connPanic (p : Panic)
  deriving DecidableEq, Repr

inductive PollResult
  | ok (reqs : List (Token × Request))
  | aborted (a : Abort)

def findClient (cs : List Client) (fd : Nat) : Option Client := cs.find? (·.fd = fd)

def replaceClient (cs : List Client) (c : Client) : List Client :=
  cs.map (fun x => if x.fd = c.fd then c else x)

/-- `ClientConnection::read`: requests to yield, and a panic marker. -/
def Client.read (c : Client) (rd : Recv) (errText : List Byte) : Client × List Request × Option Panic :=
  let (conn', out) := tryRead P0 c.conn rd
  let finish (conn : Conn0) (reqs : List Request) : Client :=
    let c1 := { c with conn := conn, inflight := c.inflight + reqs.length }
    if pendingWrite conn then { c1 with state := .awaitingOut } else c1
  match out with
  | .closed => ({ c with conn := conn', state := .closed }, [], none)
  | .streamErr _ =>
    let r := (Response.new .http11 .internalServerError).apply (.setBody errText)
    (finish (enqueue conn' r) [], [], none)
  | .parseErr e =>
    let r := (Response.new .http11 .badRequest).apply (.setBody (badRequestBody e))
    (finish (enqueue { conn' with parsed := [] } r) [], [], none)
  | .ok => (finish { conn' with parsed := [] } conn'.parsed, conn'.parsed, none)
  | .panic p => ({ c with conn := conn' }, [], some p)

/-- `ClientConnection::write` (after the fix: nothing to write is not an error). -/
def Client.write (c : Client) (w : SinkStep) : Client × List Byte :=
  let (conn', out, bytes, _) := tryWrite c.conn w
  match out with
  | .closed => ({ c with conn := conn', state := .closed }, bytes)
  | .invalidWrite =>
    ({ c with conn := conn', state := if c.state = .closed then .closed else .awaitingIn }, [])
  | .ok => ({ c with conn := conn', state := if pendingWrite conn' then c.state else .awaitingIn }, bytes)

/-- `is_done` -/
def Client.isDone (c : Client) : Bool :=
  c.state = .closed && !pendingWrite c.conn && c.inflight = 0

/-- One iteration of the event loop of `requests()`. -/
def handleEv (s : Srv) (ev : Ev) : Srv × List (Token × Request) × List Effect × Option Abort :=
  match ev with
  | .kill =>
    if s.hasKill then (s, [], [], some .shutdown) else (s, [], [], some (.unknownFd 0))
  | .listener newFd =>
    if s.conns.length = MAX_CONNECTIONS then (s, [], [.refused newFd], none)
    else
      let c : Client := { fd := newFd, inst := s.nextInst, conn := Conn.new s.limit }
      ({ s with conns := s.conns.filter (·.fd ≠ newFd) ++ [c], nextInst := s.nextInst + 1 }, [],
       [.accepted newFd s.nextInst], none)
  | .client fd fl rd errText wr =>
    match findClient s.conns fd with
    | none => (s, [], [], some (.unknownFd fd))
    | some c =>
      if fl.hup then
        let c' := { c with conn := clearWrite c.conn, state := .closed }
        ({ s with conns := replaceClient s.conns c' }, [], [], none)
      else if fl.inn then
        match c.read rd errText with
        | (c', _, some p) => ({ s with conns := replaceClient s.conns c' }, [], [], some (.connPanic p))
        | (c', reqs, none) =>
          let tok : Token := ⟨c.fd, c.inst⟩
          let (c'', eff) :=
            if c'.state = .awaitingOut then ({ c' with interest := .out }, [Effect.interest fd .out]) else (c', [])
          ({ s with conns := replaceClient s.conns c'', outstanding := s.outstanding ++ reqs.map (fun _ => tok) },
           reqs.map (fun r => (tok, r)), eff, none)
      else if fl.out then
        let (c', bytes) := c.write wr
        let (c'', eff) :=
          if c'.state = .awaitingIn then ({ c' with interest := .inn }, [Effect.interest fd .inn]) else (c', [])
        ({ s with conns := replaceClient s.conns c'' },
         [], (if bytes.isEmpty then [] else [Effect.wrote fd c.inst bytes]) ++ eff, none)
      else (s, [], [], none)

/-- "Remove dead connections." -/
def sweep (s : Srv) : Srv × List Effect :=
  ({ s with conns := s.conns.filter (fun c => !c.isDone) },
   (s.conns.filter (fun c => c.isDone)).map (fun c => Effect.dropped c.fd c.inst))

def runEvents : Srv → List Ev → List (Token × Request) → List Effect →
    Srv × List (Token × Request) × List Effect × Option Abort
  | s, [], reqs, effs => (s, reqs, effs, none)
  | s, ev :: evs, reqs, effs =>
    match handleEv s ev with
    | (s', _, effs', some a) => (s', reqs, effs ++ effs', some a)
    | (s', reqs', effs', none) => runEvents s' evs (reqs ++ reqs') (effs ++ effs')

/-- `HttpServer::requests()` for the batch of events `epoll_wait` returned. -/
def requests (s : Srv) (evs : List Ev) : Srv × PollResult × List Effect :=
  match runEvents s evs [] [] with
  | (s', _, effs, some a) => (s', .aborted a, effs)
  | (s', reqs, effs, none) =>
    let (s'', effs') := sweep s'
    (s'', .ok reqs, effs ++ effs')

inductive RespondResult | ok | underflow
  deriving DecidableEq, Repr

/-- `HttpServer::respond`: looks the connection up by descriptor number only. -/
def respond (s : Srv) (tok : Token) (r : Response) : Srv × RespondResult × List Effect :=
  let outstanding' := s.outstanding.erase tok
  match findClient s.conns tok.fd with
  | none => ({ s with outstanding := outstanding' }, .ok, [])
  | some c =>
    let (c1, eff) :=
      if c.state = .awaitingIn then ({ c with state := .awaitingOut, interest := .out }, [Effect.interest c.fd .out])
      else (c, [])
    let c2 := if c1.state ≠ .closed then { c1 with conn := enqueue c1.conn r } else c1
    if c2.inflight = 0 then
      ({ s with conns := replaceClient s.conns c2, outstanding := outstanding' }, .underflow, eff)
    else
      ({ s with conns := replaceClient s.conns { c2 with inflight := c2.inflight - 1 }, outstanding := outstanding' },
       .ok, eff)

/-- `HttpServer::enqueue_responses`: `respond` each in turn, stopping at the first error (`?`) -/
def respondMany : Srv → List (Token × Response) → Srv × RespondResult
  | s, [] => (s, .ok)
  | s, (tok, r) :: rest =>
    match respond s tok r with
    | (s', .ok, _) => respondMany s' rest
    | (s', .underflow, _) => (s', .underflow)

/-- the `while state == AwaitingOutgoing { write() }` loop of `flush_outgoing_writes` for one
    connection, given the results of its successive `write` calls -/
def flushClient : Client → List SinkStep → Client × List Byte
  | c, [] => (c, [])
  | c, w :: ws =>
    if c.state = .awaitingOut then
      let (c', b) := c.write w
      let (c'', b') := flushClient c' ws
      (c'', b ++ b')
    else (c, [])

/-- `flush_outgoing_writes`, given per connection the results of its writes. -/
def flush (s : Srv) (script : Nat → List SinkStep) : Srv × List Effect :=
  let rs := s.conns.map (fun c => (c, flushClient c (script c.fd)))
  ({ s with conns := rs.map (fun x => x.2.1) },
   (rs.filter (fun x => !x.2.2.isEmpty)).map (fun x => Effect.wrote x.1.fd x.1.inst x.2.2))

end MicroHttp
