import MicroHttp.Show
namespace MicroHttp
structure Srv where
  dummy : Nat := 0
def Srv.new : Srv := {}
def srvStep (s : Srv) (_args : List String) : Srv × String := (s, "bad-op")
end MicroHttp
