/-
  MicroHttp.Show — canonical text forms used by the line protocol (driver side only; nothing
  here is the subject of a theorem).  The Rust harness prints the same forms.
-/
import MicroHttp.Spec.Automaton
import MicroHttp.Router
namespace MicroHttp

def hx (bs : List Byte) : String := if bs.isEmpty then "." else toHex bs

def showOptNat : Option Nat → String
  | none => "-"
  | some n => toString n

def HeaderErr.show : HeaderErr → String
  | .invalidFormat k => s!"InvalidFormat({hx k})"
  | .invalidUtf8 e => s!"InvalidUtf8String({e.validUpTo},{showOptNat e.errorLen})"
  | .invalidValue k v => s!"InvalidValue({hx k},{hx v})"
  | .sizeLimitExceeded s => s!"SizeLimitExceeded({hx s})"
  | .unsupportedName k => s!"UnsupportedName({hx k})"
  | .unsupportedValue k v => s!"UnsupportedValue({hx k},{hx v})"

def ReqErr.show : ReqErr → String
  | .bodyWithoutPendingRequest => "BodyWithoutPendingRequest"
  | .headerError e => s!"HeaderError({e.show})"
  | .headersWithoutPendingRequest => "HeadersWithoutPendingRequest"
  | .invalidHttpMethod => "InvalidHttpMethod"
  | .invalidHttpVersion => "InvalidHttpVersion"
  | .invalidRequest => "InvalidRequest"
  | .invalidUri .empty => "InvalidUri(empty)"
  | .invalidUri .notUtf8 => "InvalidUri(utf8)"
  | .overflow => "Overflow"
  | .underflow => "Underflow"
  | .sizeLimitExceeded l n => s!"SizeLimitExceeded({l},{n})"

def Method.show : Method → String
  | .get => "GET" | .put => "PUT" | .patch => "PATCH"

def Version.show : Version → String
  | .http10 => "1.0" | .http11 => "1.1"

def MediaType.show : MediaType → String
  | .plainText => "plain" | .applicationJson => "json"

def bool01 (b : Bool) : String := if b then "1" else "0"

/-- lexicographic order on byte lists, for canonical output of the custom-header map -/
def bytesLt : List Byte → List Byte → Bool
  | [], [] => false
  | [], _ :: _ => true
  | _ :: _, [] => false
  | a :: as, b :: bs => if a < b then true else if b < a then false else bytesLt as bs

def insertSorted (e : List Byte × List Byte) : List (List Byte × List Byte) → List (List Byte × List Byte)
  | [] => [e]
  | x :: xs => if bytesLt e.1 x.1 then e :: x :: xs else x :: insertSorted e xs

def sortCustom (m : List (List Byte × List Byte)) : List (List Byte × List Byte) :=
  m.foldl (fun acc e => insertSorted e acc) []

def Headers.show (h : Headers) : String :=
  let cu := ",".intercalate ((sortCustom h.custom).map fun e => s!"{hx e.1}:{hx e.2}")
  s!"cl={h.contentLength} ex={bool01 h.expect} ch={bool01 h.chunked} ac={h.accept.show} cu=[{cu}]"

def showBody : Option (List Byte) → String
  | none => "-"
  | some b => hx b

def showFiles (fs : List Nat) : String := ",".intercalate (fs.map toString)

def Request.show (r : Request) : String :=
  s!"m={r.line.method.show} u={hx r.line.uri} v={r.line.version.show} {r.headers.show} body={showBody r.body} files=[{showFiles r.files}]"

def Panic.show : Panic → String
  | .slice => "slice" | .unwrap => "unwrap" | .drain => "drain" | .sub => "sub" | .fuel => "fuel"

def ReadOut.show : ReadOut → String
  | .ok => "ok"
  | .closed => "closed"
  | .streamErr n => s!"readerr({n})"
  | .parseErr e => s!"parse({e.show})"
  | .panic p => s!"PANIC({p.show})"

def WriteOut.show : WriteOut → String
  | .ok => "ok" | .closed => "closed" | .invalidWrite => "invalid"

end MicroHttp
