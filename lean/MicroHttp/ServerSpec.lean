/-
  MicroHttp.ServerSpec — vocabulary of the server theorems: the server invariant and the
  environment hypotheses (E1, E6, A1 of DESIGN.md §5) as predicates on events and tokens.
  Definitions only.
-/
import MicroHttp.Server
import MicroHttp.ConnSpec
namespace MicroHttp

def Srv.fds (s : Srv) : List Nat := s.conns.map (·.fd)
def Srv.insts (s : Srv) : List Nat := s.conns.map (·.inst)

/-- per-connection part of the server invariant -/
structure ClientOK (c : Client) : Prop where
  conn : Inv P0 c.conn
  /-- the server drains the parsed queue in the same call -/
  drained : c.conn.parsed = []
  /-- something to write ⇔ the connection waits for writability -/
  pending_iff : pendingWrite c.conn = true ↔ c.state = .awaitingOut
  /-- waiting for writability ⇒ registered for EPOLLOUT (the converse can fail transiently after
      `flush_outgoing_writes`: "stale OUT interest", repaired by the next poll) -/
  out_interest : c.state = .awaitingOut → c.interest = .out

/-- The server invariant. -/
structure SrvInv (s : Srv) : Prop where
  fdsNodup : s.fds.Nodup
  instsNodup : s.insts.Nodup
  instsFresh : ∀ c ∈ s.conns, c.inst < s.nextInst
  cap : s.conns.length ≤ MAX_CONNECTIONS
  clients : ∀ c ∈ s.conns, ClientOK c
  /-- every outstanding token names a live connection INSTANCE (descriptor and identity) -/
  tokensLive : ∀ tok ∈ s.outstanding, ∃ c ∈ s.conns, c.fd = tok.fd ∧ c.inst = tok.inst
  /-- the in-flight counter of a connection counts exactly its outstanding tokens -/
  inflight : ∀ c ∈ s.conns, c.inflight = s.outstanding.count ⟨c.fd, c.inst⟩

/-- What the kernel can report (E1: `accept` never returns a descriptor the server holds;
    E6: epoll reports only registered descriptors, and for them only the kinds of readiness they are
    registered for — IN only with IN interest, OUT only with OUT interest; hang-up/error always;
    the kill event only if a kill switch is registered). -/
def EvOK (s : Srv) : Ev → Prop
  | .kill => s.hasKill = true
  | .listener newFd => newFd ∉ s.fds
  | .client fd fl _ _ _ =>
    ∃ c, findClient s.conns fd = some c ∧ (fl.inn = true → c.interest = .inn) ∧ (fl.out = true → c.interest = .out)

/-- a batch is admissible if every event is admissible in the state in which it is handled -/
def EvsOK : Srv → List Ev → Prop
  | _, [] => True
  | s, ev :: evs => EvOK s ev ∧ ((handleEv s ev).2.2.2 = none → EvsOK (handleEv s ev).1 evs)

end MicroHttp
