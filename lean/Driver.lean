/-
  mhdriver — replays the line protocol on the Lean model (the very definitions the theorems are about).
  One input line = one operation; one output line per operation.
-/
import MicroHttp.Show
import MicroHttp.SrvProto
import MicroHttp.Conn00
import MicroHttp.Spec.RespReader
open MicroHttp

def hexVal (c : Char) : Option Nat :=
  if '0' ≤ c ∧ c ≤ '9' then some (c.toNat - 48)
  else if 'a' ≤ c ∧ c ≤ 'f' then some (c.toNat - 87)
  else if 'A' ≤ c ∧ c ≤ 'F' then some (c.toNat - 55)
  else none

def unhexGo : List Char → List Byte → Option (List Byte)
  | [], acc => some acc.reverse
  | [_], _ => none
  | a :: b :: rest, acc =>
    match hexVal a, hexVal b with
    | some x, some y => unhexGo rest ((x * 16 + y).toUInt8 :: acc)
    | _, _ => none

def unhex (s : String) : Option (List Byte) :=
  if s == "." then some [] else unhexGo s.toList []

def parseMethod : String → Option Method
  | "GET" => some .get | "PUT" => some .put | "PATCH" => some .patch | _ => none

def parseVersion : String → Option Version
  | "1.0" => some .http10 | "1.1" => some .http11 | _ => none

def parseStatus (s : String) : Option StatusCode :=
  match s.toNat? with
  | some n => StatusCode.all.find? (fun c => c.num = n)
  | none => none

def parseNatList (s : String) : Option (List Nat) :=
  if s == "-" || s == "" then some []
  else (s.splitOn ",").mapM (·.toNat?)

def parseInt? (s : String) : Option Int :=
  if s.startsWith "-" then (s.drop 1).toNat?.map (fun n => - (n : Int)) else s.toNat?.map (fun n => (n : Int))

/-- builder ops: `b:<hex>`, `t:plain|json`, `d`, `e`, `s:<hex>`, `a:GET,PUT|a:`, `m:GET`, `l:<int>|l:-`; joined by `;`; `-` = none -/
def parseBuildOp (s : String) : Option BuildOp :=
  match s.splitOn ":" with
  | ["b", h] => (unhex h).map .setBody
  | ["t", "plain"] => some (.setContentType .plainText)
  | ["t", "json"] => some (.setContentType .applicationJson)
  | ["d"] => some .setDeprecation
  | ["e"] => some .setEncoding
  | ["s", h] => (unhex h).map .setServer
  | ["a", ms] => if ms == "" then some (.setAllow []) else ((ms.splitOn ",").mapM parseMethod).map .setAllow
  | ["m", m] => (parseMethod m).map .allowMethod
  | ["l", "-"] => some (.setContentLength none)
  | ["l", n] => (parseInt? n).map (fun i => .setContentLength (some i))
  | _ => none

def parseBuildOps (s : String) : Option (List BuildOp) :=
  if s == "-" then some [] else (s.splitOn ";").mapM parseBuildOp

def parseResp (v code ops : String) : Option Response := do
  let v ← parseVersion v
  let c ← parseStatus code
  let ops ← parseBuildOps ops
  pure (Response.build v c ops)

/-- sink schedule: `a<k>`, `z`, `i`, `f` joined by `,` -/
def parseSinkStep (s : String) : Option SinkStep :=
  if s == "z" then some .zero
  else if s == "i" then some .interrupted
  else if s == "f" then some .fail
  else if s.startsWith "a" then (s.drop 1).toNat?.map .accept
  else none

def parseSched (s : String) : Option (List SinkStep) :=
  if s == "-" then some [] else (s.splitOn ",").mapM parseSinkStep

structure DState where
  hdrs : Headers := Headers.default
  routes : Routes := { serverId := [], prefix_ := [] }
  conn : Conn0 := Conn.new MAX_PAYLOAD_SIZE
  /-- what is left of the last offer (`conn recv`) after the connection took what fitted -/
  offer : List Byte := []
  /-- the same connection with the receive buffer as the Rust code has it (Conn00.lean); stepped in
      parallel on every read and compared with the window model -/
  conn00 : Conn00 RequestLine Headers := Conn00.new P0 MAX_PAYLOAD_SIZE
  /-- whether the concrete-buffer model is stepped too (it is quadratic in the buffer size per read, so the
      harness switches it on for a sample of the cases: op `l00 1` / `l00 0`) -/
  l00 : Bool := false
  srv : Srv := Srv.new

def showOuts (outs : List (Out RequestLine Headers)) : String :=
  let ds := "|".intercalate ((delivers outs).map Request.show)
  let cs := ",".intercalate ((conts outs).map fun r => r.version.show)
  s!"[{ds}] conts=[{cs}]"

def showPhase : Phase RequestLine Headers → String
  | .line => "line"
  | .hdrs _ => "hdrs"
  | .body _ got need => s!"body({got.length},{need})"

/-- the harness's handlers: odd-numbered ones pick their own content type and server identity (the router must
    overwrite both), even-numbered ones leave the defaults -/
def handlerResp (h : Nat) : Response :=
  let r := (Response.new (if h % 3 = 0 then .http11 else .http10) .ok).apply (.setBody (str s!"handler-{h}"))
  let r := if h % 5 = 4 then ((r.apply .setDeprecation).apply (.allowMethod .put)).apply .setEncoding else r
  if h % 2 = 1 then (r.apply (.setContentType .plainText)).apply (.setServer (str "handler-set")) else r

/-- step the concrete-buffer model alongside the window model and flag any difference -/
def readBoth (st : DState) (inp : Recv) : Conn0 × ReadOut × Conn00 RequestLine Headers × String :=
  let (c', out) := tryRead P0 st.conn inp
  if !st.l00 then (c', out, st.conn00, "") else
  -- the write side / queues are shared: bring them over before the read
  let c00 : Conn00 RequestLine Headers :=
    { st.conn00 with parsed := st.conn.parsed, respQ := st.conn.respQ, respBuf := st.conn.respBuf }
  let (c00', out00) := tryRead00 P0 c00 inp
  let a := c00'.abs
  let same := decide (out00 = out) && decide (a.win = c'.win) && decide (a.bodyVec = c'.bodyVec) &&
    decide (a.toRead = c'.toRead) && decide (a.state = c'.state) && decide (a.files = c'.files) &&
    decide (a.parsed.length = c'.parsed.length) && decide (a.respQ.length = c'.respQ.length) &&
    decide (c00'.buffer.length = P0.B)
  (c', out, c00', if same then "" else " L00-DIVERGES-FROM-L0")

def stepLine (st : DState) (line : String) : DState × String :=
  match line.trimAscii.toString.splitOn " " with
  | "case" :: rest => (st, "case " ++ " ".intercalate rest)
  | "#" :: _ => (st, "#")
  | ["l00", "1"] => ({ st with l00 := true }, "ok")
  | ["l00", "0"] => ({ st with l00 := false }, "ok")
  | ["method", h] =>
    match unhex h with
    | some bs => (st, match Method.tryFrom bs with | some m => "some " ++ m.show | none => "none")
    | none => (st, "bad-op")
  | ["version", h] =>
    match unhex h with
    | some bs => (st, match Version.tryFrom bs with | some m => "some " ++ m.show | none => "none")
    | none => (st, "bad-op")
  | ["media", h] =>
    match unhex h with
    | some bs => (st, match MediaType.tryFrom bs with | some m => "some " ++ m.show | none => "none")
    | none => (st, "bad-op")
  | ["rawtable"] =>
    (st, "methods=" ++ ",".intercalate (Method.all.map fun m => hx m.raw) ++
         " versions=" ++ ",".intercalate (Version.all.map fun m => hx m.raw) ++
         " media=" ++ ",".intercalate (MediaType.all.map fun m => hx m.raw) ++
         " status=" ++ ",".intercalate (StatusCode.all.map fun m => hx m.raw))
  | ["abspath", h] =>
    match unhex h with
    | some bs => (st, hx (getAbsPath bs))
    | none => (st, "bad-op")
  | ["hdrnew"] => ({ st with hdrs := Headers.default }, "ok")
  | ["hdrline", h] =>
    match unhex h with
    | some bs =>
      match st.hdrs.parseHeaderLine bs with
      | .ok h' => ({ st with hdrs := h' }, "ok " ++ h'.show)
      | .error e => (st, "err " ++ e.show ++ " " ++ st.hdrs.show)
    | none => (st, "bad-op")
  | ["hdrsetaccept", m] =>
    match m with
    | "json" => let h' := { st.hdrs with accept := .applicationJson }; ({ st with hdrs := h' }, "ok " ++ h'.show)
    | "plain" => let h' := { st.hdrs with accept := .plainText }; ({ st with hdrs := h' }, "ok " ++ h'.show)
    | _ => (st, "bad-op")
  | ["hdrinsert", k, v] =>
    match unhex k, unhex v with
    | some k, some v => let h' := { st.hdrs with custom := insertCustom st.hdrs.custom k v }; ({ st with hdrs := h' }, "ok " ++ h'.show)
    | _, _ => (st, "bad-op")
  | ["hdrblock", h] =>
    match unhex h with
    | some bs =>
      match Headers.tryFrom bs with
      | .ok h' => (st, "ok " ++ h'.show)
      | .error e => (st, "err " ++ e.show)
    | none => (st, "bad-op")
  | ["enc", h] =>
    match unhex h with
    | some bs =>
      match Encoding.tryFrom bs with
      | .ok _ => (st, "ok")
      | .error e => (st, "err " ++ e.show)
    | none => (st, "bad-op")
  | ["oneshot", m, h] =>
    match unhex h, (if m == "-" then some none else m.toNat?.map some) with
    | some bs, some maxLen =>
      match Request.tryFrom bs maxLen with
      | .ok r => (st, "ok " ++ r.show)
      | .error (.parse e) => (st, "err " ++ e.show)
      | .error (.panic p) => (st, "PANIC(" ++ p.show ++ ")")
    | _, _ => (st, "bad-op")
  | ["resp", v, code, ops] =>
    match parseResp v code ops with
    | some r => (st, hx r.serialize)
    | none => (st, "bad-op")
  | ["respget", v, code, ops] =>
    match parseResp v code ops with
    | some r =>
      (st, s!"st={r.status.num} v={r.version.show} cl={r.getContentLength} ct={r.contentType.show} dep={bool01 r.deprecation} allow=[{",".intercalate (r.getAllow.map Method.show)}] body={showBody r.getBody}")
    | none => (st, "bad-op")
  | ["respw", v, code, ops, sched] =>
    match parseResp v code ops, parseSched sched with
    | some r, some sc =>
      let (acc, ok) := r.writeAll sc
      (st, hx acc ++ (if ok then " ok" else " fail"))
    | _, _ => (st, "bad-op")
  | ["route", "new", sid, pre] =>
    match unhex sid, unhex pre with
    | some s, some p => ({ st with routes := { serverId := s, prefix_ := p } }, "ok")
    | _, _ => (st, "bad-op")
  | ["route", "add", m, path, id] =>
    match parseMethod m, unhex path, id.toNat? with
    | some m, some p, some id =>
      let (r', res) := st.routes.addRoute m p id
      ({ st with routes := r' }, match res with | .ok _ => "ok" | .error k => "exists " ++ hx k)
    | _, _, _ => (st, "bad-op")
  | ["route", "req", m, v, uri] =>
    match parseMethod m, parseVersion v, unhex uri with
    | some m, some v, some u =>
      let req : Request := ⟨⟨m, u, v⟩, Headers.default, none, []⟩
      let h := st.routes.dispatch req
      (st, s!"h={showOptNat h} resp={hx (st.routes.handle req handlerResp).serialize}")
    | _, _, _ => (st, "bad-op")
  | ["conn", "new", "default"] =>
    ({ st with conn := Conn.new MAX_PAYLOAD_SIZE, conn00 := Conn00.new P0 MAX_PAYLOAD_SIZE, offer := [] }, "ok")
  | ["conn", "new", l] =>
    match l.toNat? with
    | some l => ({ st with conn := Conn.new l, conn00 := Conn00.new P0 l, offer := [] }, "ok")
    | none => (st, "bad-op")
  | ["conn", "recv", h, fds] =>
    match unhex h, parseNatList fds with
    | some bs, some fds =>
      let n := if bs.isEmpty then 0 else takes P0 st.conn bs
      let (c', out, c00', flag) := readBoth st (.data bs fds)
      ({ st with conn := c', conn00 := c00', offer := bs.drop n }, s!"{out.show} n={n} pw={bool01 (pendingWrite c')}{flag}")
    | _, _ => (st, "bad-op")
  | ["conn", "more"] =>
    let bs := st.offer
    let n := if bs.isEmpty then 0 else takes P0 st.conn bs
    let (c', out, c00', flag) := readBoth st (.data bs [])
    ({ st with conn := c', conn00 := c00', offer := bs.drop n }, s!"{out.show} n={n} pw={bool01 (pendingWrite c')}{flag}")
  | ["conn", "rerr", e] =>
    match e.toNat? with
    | some e =>
      let (c', out, c00', flag) := readBoth st (.err e)
      ({ st with conn := c', conn00 := c00' }, s!"{out.show} n=0 pw={bool01 (pendingWrite c')}{flag}")
    | none => (st, "bad-op")
  | ["conn", "pop"] =>
    let (c', r) := popParsed st.conn
    ({ st with conn := c' }, match r with | some r => Request.show r | none => "none")
  | ["conn", "popall"] =>
    (({ st with conn := { st.conn with parsed := [] } }),
      "[" ++ "|".intercalate (st.conn.parsed.map Request.show) ++ "]")
  | ["conn", "enq", v, code, ops] =>
    match parseResp v code ops with
    | some r =>
      let c' := enqueue st.conn r
      ({ st with conn := c' }, s!"ok pw={bool01 (pendingWrite c')}")
    | none => (st, "bad-op")
  | ["conn", "write", w] =>
    match parseSinkStep w with
    | some w =>
      let (c', out, bytes, called) := tryWrite st.conn w
      ({ st with conn := c' }, s!"{out.show} w={hx bytes} called={bool01 called} pw={bool01 (pendingWrite c')}")
    | none => (st, "bad-op")
  | ["conn", "clear"] =>
    let c' := clearWrite st.conn
    ({ st with conn := c' }, s!"ok pw={bool01 (pendingWrite c')}")
  | ["conn", "setlimit", l] =>
    match l.toNat? with
    | some l => ({ st with conn := setLimit st.conn l, conn00 := { st.conn00 with limit := l } }, "ok")
    | none => (st, "bad-op")
  | ["spec", "feed", l, h] =>
    match l.toNat?, unhex h with
    | some l, some bs =>
      let (outs, r) := feed P0 l Abs.fresh bs
      (st, showOuts outs ++ " end=" ++ (match r with
        | .ok _ => "ok"
        | .error e => "err " ++ e.show))
    | _, _ => (st, "bad-op")
  | ["spec", "respread", h] =>
    match unhex h with
    | some bs =>
      let (vs, rest) := readAll (bs.length + 1) bs
      let showV (v : RespView) : String :=
        let ver := match Version.tryFrom v.version with | some x => x.show | none => "?" ++ hx v.version
        let code := String.ofList (v.code.map fun b => Char.ofNat b.toNat)
        s!"(v={ver} code={code} hdrs={",".intercalate (v.headers.map hx)} body={hx v.body})"
      (st, "[" ++ "".intercalate (vs.map showV) ++ s!"] rest={rest.length}")
    | none => (st, "bad-op")
  | "srv" :: rest =>
    let (s', out) := srvStep st.srv rest
    ({ st with srv := s' }, out)
  | _ => (st, "bad-op")

/-- `swap`: the harness drives TWO independent sets of objects (connections, servers, header sets, routers) that are
    alive in its process at the same time; the op exchanges the working state with the stashed one. Objects of the
    implementation that share nothing must behave like two models that share nothing. -/
partial def loop (hin : IO.FS.Stream) (hout : IO.FS.Stream) (st alt : DState) : IO Unit := do
  let line ← hin.getLine
  if line.isEmpty then return ()
  if line.trimAscii.toString == "swap" then
    hout.putStrLn "ok"
    loop hin hout alt st
  else
    let (st', out) := stepLine st line
    hout.putStrLn out
    loop hin hout st' alt

def main : IO Unit := do
  let hin ← IO.getStdin
  let hout ← IO.getStdout
  loop hin hout {} {}
  hout.flush
